// Kani probes run on a scratch harness crate with `quantities = { path = "/repo", features = ["doc"] }`
// (and `+ fpdec` for the decimal ones); Cargo.lock copied from /repo, [net] offline = true.
// Times are CBMC "Verification Time" in this sandbox. NOT part of the machinery.
//
// FAST (use in quick tier)
//   registry_order (LengthUnit::iter() == expected array)                     1.1 s
//   symbol_table   (symbolic unit index, String == &str)                     4.1 s
//   ufs_area       (unit_from_scale, symbolic f64, first-match contract)     2.3 s
//   fit_area_unit  (_fit unit selection contract, symbolic f64)              2.8 s
//   temp_add_mixed_panics (#[kani::should_panic])                            0.04 s
//   si_from_exp_all (all i8, loop-free)                                      0.2 s
//   si_rows        (symbolic prefix row incl. name/abbr strings)             9.6 s
//   conv_select_n3 (probe table, symbolic units, tagged offsets, covers ok)  1.0 s
//   dec_scale_table (decimal constants)                                      0.1 s
//   convert_struct (symbolic units: result unit, same-unit bit identity)     fast
// SLOW (thorough tier only)
//   from_symbol_any (symbolic UTF-8 string <= 4 bytes, 13 units)             262 s
//   dec_ufs_area   (Decimal::new_raw(i64 as i128, n<=18))                    123 s
//   temp_k_to_f    (bit-exact a*1.8 + (-459.67) through find_map)            401 s
// INFEASIBLE (never ask CBMC to relate two different float expressions)
//   a*b == b*a for symbolic f64                                              > 300 s, no answer
//   convert exact amount with symbolic units (ITE of constants / ITE)        > 600 s
//   same with concrete units enumerated by `for u in ARRAY`                  > 900 s
//   _fit amount == a / r.unit().scale() with symbolic selected unit          > 600 s
//   wrong-spec variant of the loop harness found its counterexample in       28 s

use quantities::prelude::*;
use quantities::area::*;
use quantities::temperature::*;
use quantities::{ConversionTable, Converter, SIPrefix};

#[cfg(kani)]
mod proofs {
    use super::*;

    #[kani::proof]
    #[kani::unwind(14)]
    fn ufs_area() {
        let a: f64 = kani::any();
        match Area::unit_from_scale(a) {
            Some(u) => {
                assert!(u.scale() == a);
                let mut seen = false;
                for v in AreaUnit::iter() {
                    if v == u { seen = true; }
                    if !seen { assert!(v.scale() != a); }
                }
            }
            None => { for v in AreaUnit::iter() { assert!(v.scale() != a); } }
        }
    }

    #[kani::proof]
    #[kani::unwind(14)]
    fn fit_area_unit() {
        let a: f64 = kani::any();
        let r = Area::_fit(a);
        let ru = r.unit();
        assert!(ru.si_prefix().is_some());
        let mut any_le = false;
        for v in AreaUnit::iter() {
            if v.si_prefix().is_some() {
                assert!(!(v.scale() > ru.scale() && v.scale() <= a));
                if v.scale() <= a { any_le = true; }
                if !(ru.scale() <= a) { assert!(ru.scale() <= v.scale()); }
            }
        }
        if any_le { assert!(ru.scale() <= a); }
    }

    #[kani::proof]
    #[kani::should_panic]
    fn temp_add_mixed_panics() {
        let q = Temperature::new(kani::any(), KELVIN);
        let p = Temperature::new(kani::any(), DEGREE_CELSIUS);
        let _ = q + p;
    }

    const TU: [TemperatureUnit; 3] = [DEGREE_CELSIUS, DEGREE_FAHRENHEIT, KELVIN];
    fn any_tu() -> TemperatureUnit { let i: usize = kani::any(); kani::assume(i < 3); TU[i] }

    #[kani::proof]
    #[kani::unwind(5)]
    fn conv_select_n3() {
        let t: ConversionTable<Temperature, 3> = ConversionTable { mappings: [
            (any_tu(), any_tu(), 0.0, 0.0), (any_tu(), any_tu(), 0.0, 1.0), (any_tu(), any_tu(), 0.0, 2.0)] };
        let m = [(t.mappings[0].0, t.mappings[0].1), (t.mappings[1].0, t.mappings[1].1), (t.mappings[2].0, t.mappings[2].1)];
        let a: f64 = kani::any();
        kani::assume(a.is_finite());
        let (from, to) = (any_tu(), any_tu());
        let q = Temperature::new(a, from);
        let r = t.convert(&q, to);
        if from == to {
            let x = r.unwrap();
            assert!(x.unit() == to && x.amount().to_bits() == a.to_bits());
        } else {
            let mut first: Option<usize> = None;
            let mut i = 0;
            while i < 3 { if first.is_none() && m[i].0 == from && m[i].1 == to { first = Some(i); } i += 1; }
            match (r, first) {
                (Some(x), Some(k)) => { assert!(x.unit() == to); assert!(x.amount() == k as f64); }
                (None, None) => {}
                _ => assert!(false),
            }
        }
        kani::cover!(r.is_none());
        kani::cover!(r.is_some() && from != to);
    }

    #[kani::proof]
    fn si_from_exp_all() {
        let e: i8 = kani::any();
        let in_table = matches!(e, -30|-27|-24|-21|-18|-15|-12|-9|-6|-3|-2|-1|0|1|2|3|6|9|12|15|18|21|24|27|30);
        match SIPrefix::from_exp(e) {
            Some(p) => { assert!(in_table); assert!(p.exp() == e); }
            None => assert!(!in_table),
        }
    }
}
