use vstd::prelude::*;
verus! {
pub open spec fn abs(x: real) -> real { if x >= 0real { x } else { -x } }
pub open spec fn close(x: real, y: real, k: real) -> bool { abs(x - y) <= k * abs(y) }
pub open spec fn aclose(x: real, y: real, q: real) -> bool { abs(x - y) <= q }

// C02.L2: x = own amount, y = other's amount converted into own unit (val of EA), sa own scale
proof fn lemma_cmp_physical(x: real, y: real, sa: real, mag_b: real, k: real)
    requires
        sa > 0real, 0real <= k, k < 1real,
        close(y * sa, mag_b, k),                 // from C01.L4
        abs(x * sa - mag_b) > k * abs(mag_b),    // magnitudes differ by more than one conversion's error
    ensures
        x != y,
        (x * sa < mag_b) ==> x < y,
        (x * sa > mag_b) ==> x > y,
{
    assert(x != y && ((x * sa < mag_b) ==> x < y) && ((x * sa > mag_b) ==> x > y)) by (nonlinear_arith)
        requires sa > 0real, 0real <= k, k < 1real, close(y * sa, mag_b, k), abs(x * sa - mag_b) > k * abs(mag_b);
}

// C03 add, f64: r = fl(x + y), y*sa close to mag_b (k), result magnitude r*sa
proof fn lemma_add_mag(x: real, y: real, r: real, sa: real, mag_b: real, k: real, u: real)
    requires
        sa > 0real, 0real <= k, k <= 0.001real, 0real <= u, u <= 0.001real,
        close(y * sa, mag_b, k),
        close(r, x + y, u),
    ensures
        abs(r * sa - (x * sa + mag_b)) <= (u + k + u * k) * (abs(x * sa) + abs(mag_b)),
{
    assert(abs(r * sa - (x * sa + mag_b)) <= (u + k + u * k) * (abs(x * sa) + abs(mag_b))) by (nonlinear_arith)
        requires sa > 0real, 0real <= k, k <= 0.001real, 0real <= u, u <= 0.001real,
            close(y * sa, mag_b, k), close(r, x + y, u);
}

// C01.L4-dec: ratio = sf/st ± q ; r = ratio*a ± q
proof fn lemma_convert_mag_dec(a: real, sf: real, st: real, ratio: real, r: real, q: real)
    requires
        st > 0real, sf > 0real, 0real <= q,
        aclose(ratio, sf / st, q),
        aclose(r, ratio * a, q),
    ensures
        aclose(r * st, a * sf, q * (abs(a) + 1real) * st),
{
    assert(aclose(r * st, a * sf, q * (abs(a) + 1real) * st)) by (nonlinear_arith)
        requires st > 0real, sf > 0real, 0real <= q, aclose(ratio, sf / st, q), aclose(r, ratio * a, q);
}
} // verus!
fn main() {}
