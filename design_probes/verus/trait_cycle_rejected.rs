use vstd::prelude::*;
verus! {

pub trait Unit: Copy + Sized {
    type QuantityType;
    fn as_qty(&self) -> Self::QuantityType
        where Self::QuantityType: Quantity<UnitType = Self>;
}

pub trait Quantity: Copy + Sized {
    type UnitType: Unit;
    fn unit(&self) -> Self::UnitType;
}

} // verus!
fn main() {}
