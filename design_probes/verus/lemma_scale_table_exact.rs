use vstd::prelude::*;
verus! {
pub open spec fn abs(x: real) -> real { if x >= 0real { x } else { -x } }

pub enum LengthUnit { Inch, Foot, Yard, Mile, Centimeter, Meter, KmPerHour }

// exact values of the literal tokens found in the expansion (generated, R6)
pub open spec fn lit_exact(u: LengthUnit) -> real {
    match u {
        LengthUnit::Inch => 254real / 10000real,
        LengthUnit::Foot => 3048real / 10000real,
        LengthUnit::Yard => 9144real / 10000real,
        LengthUnit::Mile => 1609344real / 1000real,
        LengthUnit::Centimeter => 1real / 100real,
        LengthUnit::Meter => 1real,
        LengthUnit::KmPerHour => 2777777777777778real / 10000000000000000real,
    }
}
// independent definition table (from /verif/spec)
pub open spec fn defn(u: LengthUnit) -> real {
    match u {
        LengthUnit::Centimeter => 1real / 100real,
        LengthUnit::Inch => 2.54real * defn_cm(),
        LengthUnit::Foot => 12real * (2.54real * defn_cm()),
        LengthUnit::Yard => 3real * (12real * (2.54real * defn_cm())),
        LengthUnit::Mile => 1760real * (3real * (12real * (2.54real * defn_cm()))),
        LengthUnit::Meter => 1real,
        LengthUnit::KmPerHour => 1000real / 3600real,
    }
}
pub open spec fn defn_cm() -> real { 1real / 100real }

proof fn lemma_scales_exact(u: LengthUnit)
    ensures
        u != LengthUnit::KmPerHour ==> lit_exact(u) == defn(u),
        u == LengthUnit::KmPerHour ==> abs(lit_exact(u) - defn(u)) <= defn(u) / 9007199254740992real,
        lit_exact(u) > 0real,
{
}

proof fn lemma_kmh_dec_precision()
    ensures abs(lit_exact(LengthUnit::KmPerHour) - defn(LengthUnit::KmPerHour)) <= 5real / 10000000000000000000real
{
}
} // verus!
fn main() {}
