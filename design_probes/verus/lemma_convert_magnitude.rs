use vstd::prelude::*;
verus! {

pub open spec fn abs(x: real) -> real { if x >= 0real { x } else { -x } }

// |x - y| <= k*|y|
pub open spec fn close(x: real, y: real, k: real) -> bool {
    abs(x - y) <= k * abs(y)
}

proof fn lemma_convert_mag(va: real, vsf: real, vst: real, vratio: real, vr: real, u: real)
    requires
        0real <= u, u <= 0.001real,
        vst > 0real, vsf > 0real,
        close(vratio, vsf / vst, u),
        close(vr, vratio * va, u),
    ensures
        close(vr * vst, va * vsf, 2real*u + u*u),
{
    assert(close(vr * vst, va * vsf, 2real*u + u*u)) by (nonlinear_arith)
        requires 0real <= u, u <= 0.001real, vst > 0real, vsf > 0real,
            close(vratio, vsf / vst, u), close(vr, vratio * va, u);
}

} // verus!
fn main() {}
