use vstd::prelude::*;
verus! {

pub open spec fn abs(x: real) -> real { if x >= 0real { x } else { -x } }
pub open spec fn close(x: real, y: real, k: real) -> bool { abs(x - y) <= k * abs(y) }

// generic composition lemmas
proof fn lemma_close_mul(x: real, x0: real, kx: real, y: real, y0: real, ky: real)
    requires close(x, x0, kx), close(y, y0, ky), 0real <= kx, 0real <= ky
    ensures close(x * y, x0 * y0, kx + ky + kx * ky)
{
    assert(close(x * y, x0 * y0, kx + ky + kx * ky)) by (nonlinear_arith)
        requires close(x, x0, kx), close(y, y0, ky), 0real <= kx, 0real <= ky;
}

proof fn lemma_close_trans(x: real, y: real, k1: real, z: real, k2: real)
    requires close(x, y, k1), close(y, z, k2), 0real <= k1, 0real <= k2
    ensures close(x, z, k1 + k2 + k1 * k2)
{
    assert(close(x, z, k1 + k2 + k1 * k2)) by (nonlinear_arith)
        requires close(x, y, k1), close(y, z, k2), 0real <= k1, 0real <= k2;
}

proof fn lemma_fit_mag(a1: real, a2: real, s1: real, s2: real, su: real, p: real, sc: real, x: real, r: real, u: real)
    requires
        0real <= u, u <= 0.001real, su > 0real,
        close(p, a1 * a2, u),
        close(sc, s1 * s2, u),
        close(x, p * sc, u),
        close(r, x / su, u),
    ensures
        close(r * su, (a1 * s1) * (a2 * s2), 5real * u),
{
    assert(close(r * su, (a1 * s1) * (a2 * s2), 5real * u)) by (nonlinear_arith)
        requires 0real <= u, u <= 0.001real, su > 0real,
        close(p, a1 * a2, u),
        close(sc, s1 * s2, u),
        close(x, p * sc, u),
        close(r, x / su, u);
}

} // verus!
fn main() {}
