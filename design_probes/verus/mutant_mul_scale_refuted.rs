use vstd::prelude::*;
use core::cmp::Ordering;
use core::ops::{Add, Sub, Mul, Div};
use vstd::std_specs::cmp::{PartialEqSpec, PartialEqSpecImpl, PartialOrdSpec, PartialOrdSpecImpl};
use vstd::std_specs::ops::{AddSpecImpl, SubSpecImpl, MulSpecImpl, DivSpecImpl};
verus! {

// ---------- shim: abstract amount type -------------
#[verifier::external_body]
#[derive(Copy, Clone)]
pub struct AmountT { _p: u8 }

pub uninterp spec fn a_add(a: AmountT, b: AmountT) -> AmountT;
pub uninterp spec fn a_sub(a: AmountT, b: AmountT) -> AmountT;
pub uninterp spec fn a_mul(a: AmountT, b: AmountT) -> AmountT;
pub uninterp spec fn a_div(a: AmountT, b: AmountT) -> AmountT;
pub uninterp spec fn a_eq(a: AmountT, b: AmountT) -> bool;
pub uninterp spec fn a_cmp(a: AmountT, b: AmountT) -> Option<Ordering>;
pub uninterp spec fn a_one() -> AmountT;

impl AddSpecImpl for AmountT {
    open spec fn obeys_add_spec() -> bool { true }
    open spec fn add_req(self, rhs: AmountT) -> bool { true }
    open spec fn add_spec(self, rhs: AmountT) -> AmountT { a_add(self, rhs) }
}
impl Add for AmountT {
    type Output = AmountT;
    #[verifier::external_body]
    fn add(self, rhs: AmountT) -> (r: AmountT) { unimplemented!() }
}
impl SubSpecImpl for AmountT {
    open spec fn obeys_sub_spec() -> bool { true }
    open spec fn sub_req(self, rhs: AmountT) -> bool { true }
    open spec fn sub_spec(self, rhs: AmountT) -> AmountT { a_sub(self, rhs) }
}
impl Sub for AmountT {
    type Output = AmountT;
    #[verifier::external_body]
    fn sub(self, rhs: AmountT) -> (r: AmountT) { unimplemented!() }
}
impl MulSpecImpl for AmountT {
    open spec fn obeys_mul_spec() -> bool { true }
    open spec fn mul_req(self, rhs: AmountT) -> bool { true }
    open spec fn mul_spec(self, rhs: AmountT) -> AmountT { a_mul(self, rhs) }
}
impl Mul for AmountT {
    type Output = AmountT;
    #[verifier::external_body]
    fn mul(self, rhs: AmountT) -> (r: AmountT) { unimplemented!() }
}
impl DivSpecImpl for AmountT {
    open spec fn obeys_div_spec() -> bool { true }
    open spec fn div_req(self, rhs: AmountT) -> bool { true }
    open spec fn div_spec(self, rhs: AmountT) -> AmountT { a_div(self, rhs) }
}
impl Div for AmountT {
    type Output = AmountT;
    #[verifier::external_body]
    fn div(self, rhs: AmountT) -> (r: AmountT) { unimplemented!() }
}
impl PartialEqSpecImpl for AmountT {
    open spec fn obeys_eq_spec() -> bool { true }
    open spec fn eq_spec(&self, other: &AmountT) -> bool { a_eq(*self, *other) }
}
impl PartialEq for AmountT {
    #[verifier::external_body]
    fn eq(&self, other: &AmountT) -> (r: bool) { unimplemented!() }
}
impl PartialOrdSpecImpl for AmountT {
    open spec fn obeys_partial_cmp_spec() -> bool { true }
    open spec fn partial_cmp_spec(&self, other: &AmountT) -> Option<Ordering> { a_cmp(*self, *other) }
}
impl PartialOrd for AmountT {
    #[verifier::external_body]
    fn partial_cmp(&self, other: &AmountT) -> (r: Option<Ordering>) { unimplemented!() }
}
#[verifier::external_body]
pub const AMNT_ONE: AmountT = AmountT { _p: 1 };

// ---------- extracted traits (cycle cut) -------------
pub trait Unit: Copy + Eq + PartialEq + Sized {
    fn symbol(&self) -> String;
}
pub open spec fn unit_eq_ok<U: Unit>() -> bool {
    &&& <U as PartialEqSpec>::obeys_eq_spec()
    &&& forall|a: U, b: U| #[trigger] a.eq_spec(&b) == (a == b)
}

pub trait LinearScaledUnit: Unit {
    spec fn scale_spec(&self) -> AmountT;
    spec fn ref_unit_spec() -> Self;

    fn scale(&self) -> (r: AmountT)
        ensures r == self.scale_spec();

    #[inline(always)]
    fn ratio(&self, other: &Self) -> (r: AmountT)
        ensures r == a_div(self.scale_spec(), other.scale_spec())
    {
        self.scale() / other.scale()
    }
}

pub trait Quantity: Copy + Sized {
    type UnitType: Unit;

    spec fn amount_spec(&self) -> AmountT;
    spec fn unit_spec(&self) -> Self::UnitType;

    fn new(amount: AmountT, unit: Self::UnitType) -> (r: Self)
        ensures r.amount_spec() == amount, r.unit_spec() == unit;

    fn amount(&self) -> (r: AmountT)
        ensures r == self.amount_spec();

    fn unit(&self) -> (r: Self::UnitType)
        ensures r == self.unit_spec();

}

pub open spec fn equiv_amount_spec<Q: Quantity>(q: Q, unit: Q::UnitType) -> AmountT
    where <Q as Quantity>::UnitType: LinearScaledUnit
{
    if q.unit_spec() == unit { q.amount_spec() } else {
        a_mul(a_div(q.unit_spec().scale_spec(), unit.scale_spec()), q.amount_spec()) }
}

pub trait HasRefUnit: Quantity
where
    <Self as Quantity>::UnitType: LinearScaledUnit,
{
    #[inline(always)]
    fn equiv_amount(&self, unit: Self::UnitType) -> (r: AmountT)
        requires unit_eq_ok::<Self::UnitType>()
        ensures r == equiv_amount_spec(*self, unit)
    {
        if self.unit() == unit {
            self.amount()
        } else {
            self.unit().ratio(&unit) * self.amount()
        }
    }

    fn convert(&self, to_unit: Self::UnitType) -> (r: Self)
        requires unit_eq_ok::<Self::UnitType>()
        ensures r.unit_spec() == to_unit, r.amount_spec() == equiv_amount_spec(*self, to_unit)
    {
        Self::new(self.equiv_amount(to_unit), to_unit)
    }

    #[inline(always)]
    fn eq(&self, other: &Self) -> (r: bool)
        requires unit_eq_ok::<Self::UnitType>()
        ensures r == a_eq(self.amount_spec(), equiv_amount_spec(*other, self.unit_spec()))
    {
        self.amount() == other.equiv_amount(self.unit())
    }

    fn partial_cmp(&self, other: &Self) -> (r: Option<Ordering>)
        requires unit_eq_ok::<Self::UnitType>()
        ensures r == a_cmp(self.amount_spec(), equiv_amount_spec(*other, self.unit_spec()))
    {
        if self.unit() == other.unit() {
            PartialOrd::partial_cmp(&self.amount(), &other.amount())
        } else {
            PartialOrd::partial_cmp(
                &self.amount(),
                &other.equiv_amount(self.unit()),
            )
        }
    }

    #[inline]
    fn add(self, rhs: Self) -> (r: Self)
        requires unit_eq_ok::<Self::UnitType>()
        ensures r.unit_spec() == self.unit_spec(), r.amount_spec() == a_add(self.amount_spec(), equiv_amount_spec(rhs, self.unit_spec()))
    {
        Self::new(self.amount() + rhs.equiv_amount(self.unit()), self.unit())
    }

    #[verifier::external_body]
    fn unit_from_scale(amnt: AmountT) -> (r: Option<Self::UnitType>)
        ensures
            match r {
                Some(u) => a_eq(u.scale_spec(), amnt),
                None => forall|u: Self::UnitType| !a_eq(#[trigger] u.scale_spec(), amnt),
            }
    { unimplemented!() }

    #[verifier::external_body]
    fn _fit_select(amount: AmountT) -> (r: (Self::UnitType, Option<Self::UnitType>))
    { unimplemented!() }

    fn _fit(amount: AmountT) -> (r: Self)
        ensures r.amount_spec() == a_div(amount, r.unit_spec().scale_spec())
    {
        let (first, last) = Self::_fit_select(amount);
        match last {
            Some(unit) => Self::new(amount / unit.scale(), unit),
            None => Self::new(amount / first.scale(), first),
        }
    }

    #[inline]
    fn div(self, rhs: Self) -> (r: AmountT)
        requires unit_eq_ok::<Self::UnitType>()
        ensures r == a_div(self.amount_spec(), equiv_amount_spec(rhs, self.unit_spec()))
    {
        self.amount() / rhs.equiv_amount(self.unit())
    }
}


// ---------- extracted from expanded macro output (Duration, Length, Speed subset) -------------
#[verifier::external_body]
fn amnt_lit_0() -> (r: AmountT) ensures r == lit_0() { unimplemented!() }
pub uninterp spec fn lit_0() -> AmountT;
#[verifier::external_body]
fn amnt_lit_1() -> (r: AmountT) ensures r == lit_1() { unimplemented!() }
pub uninterp spec fn lit_1() -> AmountT;
#[verifier::external_body]
fn amnt_lit_2() -> (r: AmountT) ensures r == lit_2() { unimplemented!() }
pub uninterp spec fn lit_2() -> AmountT;

#[derive(Copy, Clone)]
pub struct Speed {
    pub amount: AmountT,
    pub unit: SpeedUnit,
}
impl Quantity for Speed {
    type UnitType = SpeedUnit;
    open spec fn amount_spec(&self) -> AmountT { self.amount }
    open spec fn unit_spec(&self) -> SpeedUnit { self.unit }
    #[inline(always)]
    fn new(amount: AmountT, unit: Self::UnitType) -> Self {
        Self { amount, unit }
    }
    #[inline(always)]
    fn amount(&self) -> AmountT { self.amount }
    #[inline(always)]
    fn unit(&self) -> Self::UnitType { self.unit }
}
#[derive(Copy, Clone, Eq)]
pub enum SpeedUnit {
    KilometerPerHour,
    MilesPerHour,
    MeterPerSecond,
}
impl PartialEqSpecImpl for SpeedUnit {
    open spec fn obeys_eq_spec() -> bool { true }
    open spec fn eq_spec(&self, other: &SpeedUnit) -> bool { *self == *other }
}
impl PartialEq for SpeedUnit {
    #[verifier::external_body]
    fn eq(&self, other: &SpeedUnit) -> (r: bool) { unimplemented!() }
}
impl Unit for SpeedUnit {
    #[verifier::external_body]
    fn symbol(&self) -> String { unimplemented!() }
}
impl LinearScaledUnit for SpeedUnit {
    open spec fn scale_spec(&self) -> AmountT {
        match self {
            Self::KilometerPerHour => lit_0(),
            Self::MilesPerHour => lit_1(),
            Self::MeterPerSecond => lit_2(),
        }
    }
    open spec fn ref_unit_spec() -> Self { Self::MeterPerSecond }
    fn scale(&self) -> AmountT {
        match self {
            Self::KilometerPerHour => amnt_lit_0(),
            Self::MilesPerHour => amnt_lit_1(),
            Self::MeterPerSecond => amnt_lit_2(),
        }
    }
}
impl HasRefUnit for Speed {
}
impl MulSpecImpl<AmountT> for Speed {
    open spec fn obeys_mul_spec() -> bool { true }
    open spec fn mul_req(self, rhs: AmountT) -> bool { true }
    open spec fn mul_spec(self, rhs: AmountT) -> Speed { Speed { amount: a_mul(self.amount, rhs), unit: self.unit } }
}
impl Mul<AmountT> for Speed {
    type Output = Self;
    #[inline(always)]
    fn mul(self, rhs: AmountT) -> Self::Output {
        Self::Output::new(self.amount() * rhs, self.unit())
    }
}
impl AddSpecImpl<Speed> for Speed {
    open spec fn obeys_add_spec() -> bool { true }
    open spec fn add_req(self, rhs: Speed) -> bool { true }
    open spec fn add_spec(self, rhs: Speed) -> Speed { Speed { amount: a_add(self.amount, equiv_amount_spec(rhs, self.unit)), unit: self.unit } }
}
impl Add<Self> for Speed {
    type Output = Self;
    #[inline(always)]
    fn add(self, rhs: Self) -> Self::Output {
        <Self as HasRefUnit>::add(self, rhs)
    }
}


#[verifier::external_body]
fn amnt_lit_Duration_0() -> (r: AmountT) ensures r == lit_Duration_0() { unimplemented!() }
pub uninterp spec fn lit_Duration_0() -> AmountT;
#[verifier::external_body]
fn amnt_lit_Duration_1() -> (r: AmountT) ensures r == lit_Duration_1() { unimplemented!() }
pub uninterp spec fn lit_Duration_1() -> AmountT;
#[verifier::external_body]
fn amnt_lit_Duration_2() -> (r: AmountT) ensures r == lit_Duration_2() { unimplemented!() }
pub uninterp spec fn lit_Duration_2() -> AmountT;
#[derive(Copy, Clone)]
pub struct Duration {
    pub amount: AmountT,
    pub unit: DurationUnit,
}
impl Quantity for Duration {
    type UnitType = DurationUnit;
    open spec fn amount_spec(&self) -> AmountT { self.amount }
    open spec fn unit_spec(&self) -> DurationUnit { self.unit }
    #[inline(always)]
    fn new(amount: AmountT, unit: Self::UnitType) -> Self {
        Self { amount, unit }
    }
    #[inline(always)]
    fn amount(&self) -> AmountT { self.amount }
    #[inline(always)]
    fn unit(&self) -> Self::UnitType { self.unit }
}
#[derive(Copy, Clone, Eq)]
pub enum DurationUnit {
    Millisecond,
    Second,
    Minute,
}
impl PartialEqSpecImpl for DurationUnit {
    open spec fn obeys_eq_spec() -> bool { true }
    open spec fn eq_spec(&self, other: &DurationUnit) -> bool { *self == *other }
}
impl PartialEq for DurationUnit {
    #[verifier::external_body]
    fn eq(&self, other: &DurationUnit) -> (r: bool) { unimplemented!() }
}
impl Unit for DurationUnit {
    #[verifier::external_body]
    fn symbol(&self) -> String { unimplemented!() }
}
impl LinearScaledUnit for DurationUnit {
    open spec fn scale_spec(&self) -> AmountT {
        match self {
            Self::Millisecond => lit_Duration_0(),
            Self::Second => lit_Duration_1(),
            Self::Minute => lit_Duration_2(),
        }
    }
    open spec fn ref_unit_spec() -> Self { Self::Minute }
    fn scale(&self) -> AmountT {
        match self {
            Self::Millisecond => amnt_lit_Duration_0(),
            Self::Second => amnt_lit_Duration_1(),
            Self::Minute => amnt_lit_Duration_2(),
        }
    }
}
impl HasRefUnit for Duration {
}

#[verifier::external_body]
fn amnt_lit_Length_0() -> (r: AmountT) ensures r == lit_Length_0() { unimplemented!() }
pub uninterp spec fn lit_Length_0() -> AmountT;
#[verifier::external_body]
fn amnt_lit_Length_1() -> (r: AmountT) ensures r == lit_Length_1() { unimplemented!() }
pub uninterp spec fn lit_Length_1() -> AmountT;
#[verifier::external_body]
fn amnt_lit_Length_2() -> (r: AmountT) ensures r == lit_Length_2() { unimplemented!() }
pub uninterp spec fn lit_Length_2() -> AmountT;
#[derive(Copy, Clone)]
pub struct Length {
    pub amount: AmountT,
    pub unit: LengthUnit,
}
impl Quantity for Length {
    type UnitType = LengthUnit;
    open spec fn amount_spec(&self) -> AmountT { self.amount }
    open spec fn unit_spec(&self) -> LengthUnit { self.unit }
    #[inline(always)]
    fn new(amount: AmountT, unit: Self::UnitType) -> Self {
        Self { amount, unit }
    }
    #[inline(always)]
    fn amount(&self) -> AmountT { self.amount }
    #[inline(always)]
    fn unit(&self) -> Self::UnitType { self.unit }
}
#[derive(Copy, Clone, Eq)]
pub enum LengthUnit {
    Millimeter,
    Meter,
    Kilometer,
}
impl PartialEqSpecImpl for LengthUnit {
    open spec fn obeys_eq_spec() -> bool { true }
    open spec fn eq_spec(&self, other: &LengthUnit) -> bool { *self == *other }
}
impl PartialEq for LengthUnit {
    #[verifier::external_body]
    fn eq(&self, other: &LengthUnit) -> (r: bool) { unimplemented!() }
}
impl Unit for LengthUnit {
    #[verifier::external_body]
    fn symbol(&self) -> String { unimplemented!() }
}
impl LinearScaledUnit for LengthUnit {
    open spec fn scale_spec(&self) -> AmountT {
        match self {
            Self::Millimeter => lit_Length_0(),
            Self::Meter => lit_Length_1(),
            Self::Kilometer => lit_Length_2(),
        }
    }
    open spec fn ref_unit_spec() -> Self { Self::Kilometer }
    fn scale(&self) -> AmountT {
        match self {
            Self::Millimeter => amnt_lit_Length_0(),
            Self::Meter => amnt_lit_Length_1(),
            Self::Kilometer => amnt_lit_Length_2(),
        }
    }
}
impl HasRefUnit for Length {
}

pub open spec fn derived_mul_spec<A: Quantity, B: Quantity, R: Quantity>(a: A, b: B, r: R) -> bool
    where <A as Quantity>::UnitType: LinearScaledUnit, <B as Quantity>::UnitType: LinearScaledUnit, <R as Quantity>::UnitType: LinearScaledUnit
{
    let scale = a_mul(a.unit_spec().scale_spec(), b.unit_spec().scale_spec());
    ||| (a_eq(r.unit_spec().scale_spec(), scale) && r.amount_spec() == a_mul(a.amount_spec(), b.amount_spec()))
    ||| ((forall|u: R::UnitType| !a_eq(#[trigger] u.scale_spec(), scale))
         && r.amount_spec() == a_div(a_mul(a_mul(a.amount_spec(), b.amount_spec()), scale), r.unit_spec().scale_spec()))
}
impl MulSpecImpl<Duration> for Speed {
    open spec fn obeys_mul_spec() -> bool { false }
    open spec fn mul_req(self, rhs: Duration) -> bool { true }
    open spec fn mul_spec(self, rhs: Duration) -> Length { arbitrary() }
}
impl Mul<Duration> for Speed where Self: HasRefUnit, Duration: HasRefUnit
    {
    type Output = Length;
    fn mul(self, rhs: Duration) -> (r: Self::Output)
        ensures derived_mul_spec(self, rhs, r)
    {
        let scale = self.unit().scale() * rhs.unit().scale();
        match Self::Output::unit_from_scale(scale) {
            Some(unit) =>
                Self::Output::new(self.amount() * rhs.amount(), unit),
            None =>
                <Self::Output as
                        HasRefUnit>::_fit(self.amount() * rhs.amount() / scale),
        }
    }
}

} // verus!
fn main() {}
