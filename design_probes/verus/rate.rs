use vstd::prelude::*;
use core::cmp::Ordering;
use core::ops::{Add, Sub, Mul, Div};
use vstd::std_specs::cmp::{PartialEqSpec, PartialEqSpecImpl, PartialOrdSpec, PartialOrdSpecImpl};
use vstd::std_specs::ops::{AddSpecImpl, SubSpecImpl, MulSpecImpl, DivSpecImpl, DivSpec};
verus! {

// ---------- shim: abstract amount type -------------
#[verifier::external_body]
#[derive(Copy, Clone)]
pub struct AmountT { _p: u8 }

pub uninterp spec fn a_add(a: AmountT, b: AmountT) -> AmountT;
pub uninterp spec fn a_sub(a: AmountT, b: AmountT) -> AmountT;
pub uninterp spec fn a_mul(a: AmountT, b: AmountT) -> AmountT;
pub uninterp spec fn a_div(a: AmountT, b: AmountT) -> AmountT;
pub uninterp spec fn a_eq(a: AmountT, b: AmountT) -> bool;
pub uninterp spec fn a_cmp(a: AmountT, b: AmountT) -> Option<Ordering>;
pub open spec fn a_one() -> AmountT { AMNT_ONE }

impl AddSpecImpl for AmountT {
    open spec fn obeys_add_spec() -> bool { true }
    open spec fn add_req(self, rhs: AmountT) -> bool { true }
    open spec fn add_spec(self, rhs: AmountT) -> AmountT { a_add(self, rhs) }
}
impl Add for AmountT {
    type Output = AmountT;
    #[verifier::external_body]
    fn add(self, rhs: AmountT) -> (r: AmountT) { unimplemented!() }
}
impl SubSpecImpl for AmountT {
    open spec fn obeys_sub_spec() -> bool { true }
    open spec fn sub_req(self, rhs: AmountT) -> bool { true }
    open spec fn sub_spec(self, rhs: AmountT) -> AmountT { a_sub(self, rhs) }
}
impl Sub for AmountT {
    type Output = AmountT;
    #[verifier::external_body]
    fn sub(self, rhs: AmountT) -> (r: AmountT) { unimplemented!() }
}
impl MulSpecImpl for AmountT {
    open spec fn obeys_mul_spec() -> bool { true }
    open spec fn mul_req(self, rhs: AmountT) -> bool { true }
    open spec fn mul_spec(self, rhs: AmountT) -> AmountT { a_mul(self, rhs) }
}
impl Mul for AmountT {
    type Output = AmountT;
    #[verifier::external_body]
    fn mul(self, rhs: AmountT) -> (r: AmountT) { unimplemented!() }
}
impl DivSpecImpl for AmountT {
    open spec fn obeys_div_spec() -> bool { true }
    open spec fn div_req(self, rhs: AmountT) -> bool { true }
    open spec fn div_spec(self, rhs: AmountT) -> AmountT { a_div(self, rhs) }
}
impl Div for AmountT {
    type Output = AmountT;
    #[verifier::external_body]
    fn div(self, rhs: AmountT) -> (r: AmountT) { unimplemented!() }
}
impl PartialEqSpecImpl for AmountT {
    open spec fn obeys_eq_spec() -> bool { true }
    open spec fn eq_spec(&self, other: &AmountT) -> bool { a_eq(*self, *other) }
}
impl PartialEq for AmountT {
    #[verifier::external_body]
    fn eq(&self, other: &AmountT) -> (r: bool) { unimplemented!() }
}
impl PartialOrdSpecImpl for AmountT {
    open spec fn obeys_partial_cmp_spec() -> bool { true }
    open spec fn partial_cmp_spec(&self, other: &AmountT) -> Option<Ordering> { a_cmp(*self, *other) }
}
impl PartialOrd for AmountT {
    #[verifier::external_body]
    fn partial_cmp(&self, other: &AmountT) -> (r: Option<Ordering>) { unimplemented!() }
}
#[verifier::external_body]
pub const AMNT_ONE: AmountT = AmountT { _p: 1 };


// ---------- extracted traits (cycle cut) -------------
pub trait Unit: Copy + Eq + PartialEq + Sized {
    fn symbol(&self) -> String;
}
pub open spec fn unit_eq_ok<U: Unit>() -> bool {
    &&& <U as PartialEqSpec>::obeys_eq_spec()
    &&& forall|a: U, b: U| #[trigger] a.eq_spec(&b) == (a == b)
}

pub trait LinearScaledUnit: Unit {
    spec fn scale_spec(&self) -> AmountT;
    spec fn ref_unit_spec() -> Self;

    fn scale(&self) -> (r: AmountT)
        ensures r == self.scale_spec();

    #[inline(always)]
    fn ratio(&self, other: &Self) -> (r: AmountT)
        ensures r == a_div(self.scale_spec(), other.scale_spec())
    {
        self.scale() / other.scale()
    }
}

pub trait Quantity: Copy + Sized {
    type UnitType: Unit;

    spec fn amount_spec(&self) -> AmountT;
    spec fn unit_spec(&self) -> Self::UnitType;

    fn new(amount: AmountT, unit: Self::UnitType) -> (r: Self)
        ensures r.amount_spec() == amount, r.unit_spec() == unit;

    fn amount(&self) -> (r: AmountT)
        ensures r == self.amount_spec();

    fn unit(&self) -> (r: Self::UnitType)
        ensures r == self.unit_spec();

    fn unit_as_qty(unit: Self::UnitType) -> (r: Self)
        ensures r.amount_spec() == a_one(), r.unit_spec() == unit
    {
        Self::new(AMNT_ONE, unit)
    }

    #[inline(always)]
    fn eq(&self, other: &Self) -> (r: bool)
        requires unit_eq_ok::<Self::UnitType>()
        ensures r == (self.unit_spec() == other.unit_spec() && a_eq(self.amount_spec(), other.amount_spec()))
    {
        self.unit() == other.unit() && self.amount() == other.amount()
    }

    fn partial_cmp(&self, other: &Self) -> (r: Option<Ordering>)
        requires unit_eq_ok::<Self::UnitType>()
        ensures r == (if self.unit_spec() == other.unit_spec() { a_cmp(self.amount_spec(), other.amount_spec()) } else { None })
    {
        if self.unit() == other.unit() {
            PartialOrd::partial_cmp(&self.amount(), &other.amount())
        } else {
            None
        }
    }

    fn add(self, rhs: Self) -> (r: Self)
        requires unit_eq_ok::<Self::UnitType>(), self.unit_spec() == rhs.unit_spec()
        ensures r.unit_spec() == self.unit_spec(), r.amount_spec() == a_add(self.amount_spec(), rhs.amount_spec())
    {
        if self.unit() == rhs.unit() {
            return Self::new(self.amount() + rhs.amount(), self.unit());
        }
        panic!(
            "Can't add '{}' and '{}'.",
            self.unit().symbol(),
            rhs.unit().symbol()
        );
    }
}


#[derive(Copy, Clone)]
pub struct Rate<TQ: Quantity, PQ: Quantity> {
    pub term_amount: AmountT,
    pub term_unit: TQ::UnitType,
    pub per_unit_multiple: AmountT,
    pub per_unit: PQ::UnitType,
}

impl<TQ: Quantity, PQ: Quantity> Rate<TQ, PQ> {
    #[inline(always)]
    pub const fn new(term_amount: AmountT, term_unit: TQ::UnitType,
        per_unit_multiple: AmountT, per_unit: PQ::UnitType) -> (r: Self)
        ensures r.term_amount == term_amount, r.term_unit == term_unit, r.per_unit_multiple == per_unit_multiple, r.per_unit == per_unit
    {
        Self { term_amount, term_unit, per_unit_multiple, per_unit }
    }
    #[inline(always)]
    pub fn from_qty_vals(term: TQ, per: PQ) -> (r: Self)
        ensures r.term_amount == term.amount_spec(), r.term_unit == term.unit_spec(), r.per_unit_multiple == per.amount_spec(), r.per_unit == per.unit_spec()
    {
        Self {
            term_amount: term.amount(),
            term_unit: term.unit(),
            per_unit_multiple: per.amount(),
            per_unit: per.unit(),
        }
    }
    #[inline(always)]
    pub const fn term_amount(&self) -> (r: AmountT) ensures r == self.term_amount { self.term_amount }
    #[inline(always)]
    pub const fn term_unit(&self) -> (r: TQ::UnitType) ensures r == self.term_unit { self.term_unit }
    #[inline(always)]
    pub const fn per_unit_multiple(&self) -> (r: AmountT) ensures r == self.per_unit_multiple {
        self.per_unit_multiple
    }
    #[inline(always)]
    pub const fn per_unit(&self) -> (r: PQ::UnitType) ensures r == self.per_unit { self.per_unit }
    pub const fn reciprocal(&self) -> (r: Rate<PQ, TQ>)
        ensures r.term_amount == self.per_unit_multiple, r.term_unit == self.per_unit, r.per_unit_multiple == self.term_amount, r.per_unit == self.term_unit
    {
        Rate::<PQ,
                TQ>::new(self.per_unit_multiple(), self.per_unit(),
            self.term_amount(), self.term_unit())
    }
}

impl<TQ: Quantity, PQ: Quantity> MulSpecImpl<PQ> for Rate<TQ, PQ> where
    PQ: Div<PQ, Output = AmountT> {
    open spec fn obeys_mul_spec() -> bool { false }
    open spec fn mul_req(self, rhs: PQ) -> bool {
        &&& <PQ as DivSpec<PQ>>::obeys_div_spec()
        &&& forall|x: PQ, y: PQ| #[trigger] x.div_req(y)
    }
    open spec fn mul_spec(self, rhs: PQ) -> TQ { arbitrary() }
}
impl<TQ: Quantity, PQ: Quantity> Mul<PQ> for Rate<TQ, PQ> where
    PQ: Div<PQ, Output = AmountT> {
    type Output = TQ;
    fn mul(self, rhs: PQ) -> (r: Self::Output)
        ensures
            r.unit_spec() == self.term_unit,
            exists|one: PQ| one.amount_spec() == a_one() && one.unit_spec() == self.per_unit &&
              r.amount_spec() == a_mul(a_div(#[trigger] rhs.div_spec(one), self.per_unit_multiple), self.term_amount),
    {
        let amnt: AmountT =
            (rhs / PQ::unit_as_qty(self.per_unit())) / self.per_unit_multiple();
        Self::Output::new(amnt * self.term_amount(), self.term_unit())
    }
}

} // verus!
fn main() {}
