#!/bin/sh
# offline setup: nothing is fetched; pre-builds what the checks reuse
set -e
cd "$(dirname "$0")"
mkdir -p build evidence/replay
verus --version >/dev/null
exit 0
