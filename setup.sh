#!/bin/sh
# offline setup: nothing is fetched; pre-builds what the checks reuse (all under /verif/build)
set -e
cd "$(dirname "$0")"
mkdir -p build evidence/replay
verus --version >/dev/null
# warm the caches: expansions, Kani harness crate, replay binaries (failures here are not fatal:
# every check rebuilds what it needs)
python3 tools/warm.py || true
exit 0
