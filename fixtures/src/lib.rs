//! Synthetic quantity definitions exercising every code path of the `#[quantity]` macro:
//! reference unit with SI prefixes and scale ties, SI-prefixed reference unit, types without
//! reference unit (multi-unit, declared out of name order), a single-unit type (a definition with only a `#[ref_unit]` is rejected by the macro), derivations (product, square, quotient, `AmountT` operand).
#![allow(dead_code)]
use quantities::prelude::*;

#[quantity]
#[ref_unit(Tick, "t", NONE, "reference unit")]
#[unit(Millitick, "mt", MILLI, 0.001, "0.001 t")]
#[unit(Twin_Tick, "tt", 1, "same scale as the reference unit, declared before it sorts")]
#[unit(Kilotick, "kt", KILO, 1000, "1000 t")]
#[unit(Dozen_Tick, "dzt", 12, "12 t, not an SI unit")]
#[unit(Gross_Tick, "grt", 144, "144 t, not an SI unit")]
#[unit(Other_Kilotick, "okt", 1000., "tie with Kilotick, not SI")]
/// reference unit NONE-prefixed; ties at scale 1 and 1000
pub struct Ticks {}

#[quantity]
#[unit(Centidur, "cd", CENTI, 0.00001)]
#[ref_unit(Kilodur, "kd", KILO, "SI-prefixed reference unit, declared in the middle")]
#[unit(Dur, "d", NONE, 0.001)]
#[unit(Shake, "shk", 0.5, "not SI")]
#[unit(Megadur, "Md", MEGA, 1000)]
/// reference unit carries the prefix KILO
pub struct Durs {}

#[quantity]
#[ref_unit(Plain, "p")]
#[unit(Half_Plain, "hp", 0.5)]
#[unit(Big_Plain, "bp", 64)]
/// reference unit without SI prefix: every unit is eligible for fitting
pub struct Plains {}

#[quantity]
#[unit(Zeta, "z")]
#[unit(Alpha, "a")]
#[unit(Mid_Point, "m p")]
/// no reference unit; declared out of name order
pub struct Grade {}

#[quantity]
#[unit(Grade_x, "gx")]
#[unit(GradeB, "gb")]
#[unit(Grade2, "g2")]
#[unit(pH, "pH")]
#[unit(Richter, "R")]
#[unit(Point_Didot, "pt", "first of two units sharing a symbol, in name order")]
#[unit(Point_Am, "pt")]
/// no reference unit; the order of the unit NAMES ("Grade x" < "Grade2" < "GradeB" < "Point Am" <
/// "Point Didot" < "Richter" < "pH") differs from the order of the variant identifiers
#[allow(non_camel_case_types)]
pub struct Scale {}

#[quantity]
#[unit(Solo_Unit, "su")]
/// single unit
pub struct Solo {}

#[quantity]
#[ref_unit(Heap_Unit, "h", NONE)]
#[unit(Teraheap, "Th", TERA, 1000000000000.)]
#[unit(Gigaheap, "Gh", GIGA, 1000000000)]
#[unit(Milliard_Heap, "mdh", 1000000000., "alias of Gigaheap")]
#[unit(Megaheap, "Mh", MEGA, 1000000)]
#[unit(Million_Heap, "mnh", 1000000., "alias of Megaheap")]
#[unit(Myriaheap, "myh", 10000)]
#[unit(Kiloheap, "kh", KILO, 1000)]
#[unit(Thousandheap, "th", 1000., "alias of Kiloheap")]
#[unit(Grossheap, "grh", 144)]
#[unit(Hectoheap, "hh", HECTO, 100)]
#[unit(Dozenheap, "dzh", 12)]
#[unit(Decaheap, "dah", DECA, 10)]
#[unit(Tenheap, "tnh", 10.0, "alias of Decaheap")]
#[unit(Grave, "gv", 1, "alias of the reference unit")]
#[unit(Halfheap, "hfh", 0.5)]
#[unit(Deciheap, "dh", DECI, 0.1)]
#[unit(Centiheap, "ch", CENTI, 0.01)]
#[unit(Milliheap, "mh", MILLI, 0.001)]
#[unit(Pond, "p", 0.001, "alias of Milliheap")]
#[unit(Microheap, "µh", MICRO, 0.000001)]
#[unit(Gamma_Heap, "γh", 0.000001, "alias of Microheap")]
#[unit(Nanoheap, "nh", NANO, 0.000000001)]
#[unit(Picoheap, "ph", PICO, 0.000000000001)]
#[unit(Femtoheap, "fh", FEMTO, 0.000000000000001)]
#[unit(Attoheap, "ah", ATTO, 0.000000000000000001)]
/// 26 units (more than 20: `sort_unstable_by` is no longer an insertion sort), several scale ties
/// (each SI unit declared before its alias), declared in descending order of scale
pub struct Heap {}

#[quantity]
#[ref_unit(Cell, "c", NONE)]
#[unit(Kilocell, "Kc", KILO, 1024, "binary multiple: the scale is NOT ten to the prefix exponent")]
#[unit(Megacell, "Mc", MEGA, 1048576)]
#[unit(Millicell, "mc", MILLI, 0.0009765625)]
#[unit(Page, "pg", 4096)]
/// SI prefixes used for binary multiples: nothing may be derived from the prefix exponents
pub struct Mem {}

#[quantity]
#[ref_unit(Flop, "flop", "reference unit WITHOUT an SI prefix ...")]
#[unit(Op, "op", NONE, 1, "... and an alias of it that carries one")]
#[unit(Grand, "G", 1000, "no prefix, declared before ...")]
#[unit(Kiloflop, "kflop", KILO, 1000, "... the SI unit of the same scale")]
#[unit(Megaflop, "Mflop", MEGA, 1000000)]
/// scale ties between units with and without SI prefix: the order must not depend on the prefix
pub struct Ops {}

#[quantity(Ticks * Durs)]
#[ref_unit(Tickdur, "t·kd", NONE)]
#[unit(Millitickdur, "mt·kd", MILLI, 0.001)]
#[unit(Kilotickdur, "kt·kd", KILO, 1000)]
#[unit(Odd_Tickdur, "otd", 7)]
pub struct TickDurs {}

#[quantity(Ticks * Ticks)]
#[ref_unit(Square_Tick, "t²", NONE)]
#[unit(Square_Kilotick, "kt²", MEGA, 1000000)]
#[unit(Square_Dozen, "dzt²", 144)]
pub struct SquareTicks {}

#[quantity(Ticks / Durs)]
#[ref_unit(Tick_per_Kilodur, "t/kd")]
#[unit(Tick_per_Dur, "t/d", 1000)]
#[unit(Dozen_per_Shake, "dzt/shk", 24)]
pub struct Pace {}

#[quantity(AmountT / Durs)]
#[ref_unit(Per_Kilodur, "/kd", NONE)]
#[unit(Per_Dur, "/d", KILO, 1000)]
pub struct PerDur {}
