//! Synthetic quantity definitions exercising every code path of the `#[quantity]` macro:
//! reference unit with SI prefixes and scale ties, SI-prefixed reference unit, types without
//! reference unit (multi-unit, declared out of name order), a single-unit type (a definition with only a `#[ref_unit]` is rejected by the macro), derivations (product, square, quotient, `AmountT` operand).
#![allow(dead_code)]
use quantities::prelude::*;

#[quantity]
#[ref_unit(Tick, "t", NONE, "reference unit")]
#[unit(Millitick, "mt", MILLI, 0.001, "0.001 t")]
#[unit(Twin_Tick, "tt", 1, "same scale as the reference unit, declared before it sorts")]
#[unit(Kilotick, "kt", KILO, 1000, "1000 t")]
#[unit(Dozen_Tick, "dzt", 12, "12 t, not an SI unit")]
#[unit(Gross_Tick, "grt", 144, "144 t, not an SI unit")]
#[unit(Other_Kilotick, "okt", 1000., "tie with Kilotick, not SI")]
/// reference unit NONE-prefixed; ties at scale 1 and 1000
pub struct Ticks {}

#[quantity]
#[unit(Centidur, "cd", CENTI, 0.00001)]
#[ref_unit(Kilodur, "kd", KILO, "SI-prefixed reference unit, declared in the middle")]
#[unit(Dur, "d", NONE, 0.001)]
#[unit(Shake, "shk", 0.5, "not SI")]
#[unit(Megadur, "Md", MEGA, 1000)]
/// reference unit carries the prefix KILO
pub struct Durs {}

#[quantity]
#[ref_unit(Plain, "p")]
#[unit(Half_Plain, "hp", 0.5)]
#[unit(Big_Plain, "bp", 64)]
/// reference unit without SI prefix: every unit is eligible for fitting
pub struct Plains {}

#[quantity]
#[unit(Zeta, "z")]
#[unit(Alpha, "a")]
#[unit(Mid_Point, "m p")]
/// no reference unit; declared out of name order
pub struct Grade {}

#[quantity]
#[unit(Grade_x, "gx")]
#[unit(GradeB, "gb")]
#[unit(Grade2, "g2")]
#[unit(pH, "pH")]
#[unit(Richter, "R")]
#[unit(Point_Didot, "pt", "first of two units sharing a symbol, in name order")]
#[unit(Point_Am, "pt")]
/// no reference unit; the order of the unit NAMES ("Grade x" < "Grade2" < "GradeB" < "Point Am" <
/// "Point Didot" < "Richter" < "pH") differs from the order of the variant identifiers
#[allow(non_camel_case_types)]
pub struct Scale {}

#[quantity]
#[unit(Solo_Unit, "su")]
/// single unit
pub struct Solo {}

#[quantity(Ticks * Durs)]
#[ref_unit(Tickdur, "t·kd", NONE)]
#[unit(Millitickdur, "mt·kd", MILLI, 0.001)]
#[unit(Kilotickdur, "kt·kd", KILO, 1000)]
#[unit(Odd_Tickdur, "otd", 7)]
pub struct TickDurs {}

#[quantity(Ticks * Ticks)]
#[ref_unit(Square_Tick, "t²", NONE)]
#[unit(Square_Kilotick, "kt²", MEGA, 1000000)]
#[unit(Square_Dozen, "dzt²", 144)]
pub struct SquareTicks {}

#[quantity(Ticks / Durs)]
#[ref_unit(Tick_per_Kilodur, "t/kd")]
#[unit(Tick_per_Dur, "t/d", 1000)]
#[unit(Dozen_per_Shake, "dzt/shk", 24)]
pub struct Pace {}

#[quantity(AmountT / Durs)]
#[ref_unit(Per_Kilodur, "/kd", NONE)]
#[unit(Per_Dur, "/d", KILO, 1000)]
pub struct PerDur {}
