//! Replay binary: executes the REAL library code (path dependency on /repo) on concrete
//! inputs and prints what it observed; the exact-rational judge is tools/replay_grid.py.
//! Amounts travel as text: f64 as the hex bit pattern, Decimal as its exact decimal string.
use quantities::prelude::*;
use std::cmp::Ordering;

#[cfg(not(feature = "dec"))]
fn parse_amnt(s: &str) -> AmountT {
    f64::from_bits(u64::from_str_radix(s.trim_start_matches("0x"), 16).expect("hex bits"))
}
#[cfg(not(feature = "dec"))]
fn show(a: AmountT) -> String {
    format!("0x{:016x}", a.to_bits())
}
#[cfg(feature = "dec")]
fn parse_amnt(s: &str) -> AmountT {
    use std::str::FromStr;
    quantities::Decimal::from_str(s).expect("decimal")
}
#[cfg(feature = "dec")]
fn show(a: AmountT) -> String {
    format!("{}", a)
}

fn ord(o: Option<Ordering>) -> &'static str {
    match o {
        Some(Ordering::Less) => "Less",
        Some(Ordering::Equal) => "Equal",
        Some(Ordering::Greater) => "Greater",
        None => "None",
    }
}

fn units<Q: Quantity>() -> Vec<Q::UnitType> {
    Q::iter_units().collect()
}

fn like_ops<Q>(tname: &str, mode: &str, args: &[String])
where
    Q: HasRefUnit + PartialEq + PartialOrd + std::ops::Add<Q, Output = Q> + std::ops::Sub<Q, Output = Q> + std::ops::Div<Q, Output = AmountT>,
    <Q as Quantity>::UnitType: LinearScaledUnit,
{
    let us = units::<Q>();
    match mode {
        "units" => {
            for (i, u) in us.iter().enumerate() {
                println!("{} {} {} {} {:?}", tname, i, u.name().replace(' ', "_"), show(u.scale()), u.symbol());
            }
        }
        // one <ui> <a> <vi> <b>: every like operation on (a ui) and (b vi), both operand orders
        "one" => {
            let (ui, a, vi, b): (usize, AmountT, usize, AmountT) =
                (args[0].parse().unwrap(), parse_amnt(&args[1]), args[2].parse().unwrap(), parse_amnt(&args[3]));
            let (u, v) = (us[ui], us[vi]);
            let (p, q) = (Q::new(a, u), Q::new(b, v));
            let c = p.convert(v);
            let s = p + q;
            let d = p - q;
            println!(
                "{} {} {} {} {} su={} sv={} eq_ab={} eq_ba={} ne_ab={} lt_ab={} gt_ba={} le_ab={} ge_ba={} gt_ab={} lt_ba={} cmp_ab={} cmp_ba={} conv_unit_ok={} conv={} equiv={} add_unit_ok={} add={} sub_unit_ok={} sub={} div={}",
                tname, ui, show(a), vi, show(b), show(u.scale()), show(v.scale()),
                p == q, q == p, p != q, p < q, q > p, p <= q, q >= p, p > q, q < p,
                ord(PartialOrd::partial_cmp(&p, &q)), ord(PartialOrd::partial_cmp(&q, &p)),
                c.unit() == v, show(c.amount()), show(p.equiv_amount(v)),
                s.unit() == u, show(s.amount()), d.unit() == u, show(d.amount()), show(p / q)
            );
        }
        _ => panic!("unknown mode"),
    }
}

macro_rules! dispatch {
    ($t:expr, $mode:expr, $args:expr, $($name:literal => $ty:ty),* $(,)?) => {
        match $t {
            $($name => like_ops::<$ty>($name, $mode, $args),)*
            "ALL" => { $(like_ops::<$ty>($name, $mode, $args);)* }
            other => {
                if !astro_dispatch(other, $mode, $args) { panic!("unknown type {}", other) }
            }
        }
    };
}

#[cfg(feature = "astro")]
fn astro_dispatch(t: &str, mode: &str, args: &[String]) -> bool {
    match t {
        "astro::Mass" => like_ops::<astronomical_quantities::Mass>(t, mode, args),
        "astro::Length" => like_ops::<astronomical_quantities::Length>(t, mode, args),
        "astro::Duration" => like_ops::<astronomical_quantities::Duration>(t, mode, args),
        "astro::Speed" => like_ops::<astronomical_quantities::Speed>(t, mode, args),
        "ASTRO" => {
            for n in ["astro::Mass", "astro::Length", "astro::Duration", "astro::Speed"] {
                astro_dispatch(n, mode, args);
            }
        }
        _ => return false,
    }
    true
}
#[cfg(not(feature = "astro"))]
fn astro_dispatch(_t: &str, _mode: &str, _args: &[String]) -> bool {
    false
}

fn main() {
    let args: Vec<String> = std::env::args().skip(1).collect();
    // usage: qreplay <mode> <Type|ALL> [args..]   (several invocations may be given on stdin, one per line)
    let mut jobs: Vec<Vec<String>> = Vec::new();
    if args.first().map(|s| s.as_str()) == Some("-") {
        use std::io::BufRead;
        for l in std::io::stdin().lock().lines() {
            let l = l.unwrap();
            if !l.trim().is_empty() {
                jobs.push(l.split_whitespace().map(|s| s.to_string()).collect());
            }
        }
    } else {
        jobs.push(args);
    }
    for j in jobs {
        let mode = j[0].as_str();
        let t = j[1].as_str();
        let rest = &j[2..];
        dispatch!(t, mode, rest,
            "Mass" => quantities::mass::Mass,
            "Length" => quantities::length::Length,
            "Duration" => quantities::duration::Duration,
            "Area" => quantities::area::Area,
            "Volume" => quantities::volume::Volume,
            "Speed" => quantities::speed::Speed,
            "Acceleration" => quantities::acceleration::Acceleration,
            "Force" => quantities::force::Force,
            "Energy" => quantities::energy::Energy,
            "Power" => quantities::power::Power,
            "Frequency" => quantities::frequency::Frequency,
            "DataVolume" => quantities::datavolume::DataVolume,
            "DataThroughput" => quantities::datathroughput::DataThroughput,
        );
    }
}
