//! Replay binary: executes the REAL library code (path dependency on /repo) on concrete
//! inputs and prints what it observed; the exact-rational judge is tools/replay_grid.py.
//! Amounts travel as text: f64 as the hex bit pattern, Decimal as its exact decimal string.
use quantities::prelude::*;
use quantities::Rate;
use std::cmp::Ordering;

#[cfg(not(feature = "dec"))]
fn parse_amnt(s: &str) -> AmountT {
    f64::from_bits(u64::from_str_radix(s.trim_start_matches("0x"), 16).expect("hex bits"))
}
#[cfg(not(feature = "dec"))]
fn show(a: AmountT) -> String {
    format!("0x{:016x}", a.to_bits())
}
#[cfg(feature = "dec")]
fn parse_amnt(s: &str) -> AmountT {
    use std::str::FromStr;
    quantities::Decimal::from_str(s).expect("decimal")
}
#[cfg(feature = "dec")]
fn show(a: AmountT) -> String {
    format!("{}", a)
}

fn ord(o: Option<Ordering>) -> &'static str {
    match o {
        Some(Ordering::Less) => "Less",
        Some(Ordering::Equal) => "Equal",
        Some(Ordering::Greater) => "Greater",
        None => "None",
    }
}

fn units<Q: Quantity>() -> Vec<Q::UnitType> {
    Q::iter_units().collect()
}

fn like_ops<Q>(tname: &str, mode: &str, args: &[String])
where
    Q: HasRefUnit + PartialEq + PartialOrd + std::ops::Add<Q, Output = Q> + std::ops::Sub<Q, Output = Q> + std::ops::Div<Q, Output = AmountT>,
    <Q as Quantity>::UnitType: LinearScaledUnit,
{
    let us = units::<Q>();
    match mode {
        "units" => {
            for (i, u) in us.iter().enumerate() {
                println!("{} {} {} {} {:?} si={}", tname, i, u.name().replace(' ', "_"), show(u.scale()), u.symbol(), u.si_prefix().is_some());
            }
        }
        // one <ui> <a> <vi> <b>: every like operation on (a ui) and (b vi), both operand orders
        "one" => {
            let (ui, a, vi, b): (usize, AmountT, usize, AmountT) =
                (args[0].parse().unwrap(), parse_amnt(&args[1]), args[2].parse().unwrap(), parse_amnt(&args[3]));
            let (u, v) = (us[ui], us[vi]);
            let (p, q) = (Q::new(a, u), Q::new(b, v));
            let c = p.convert(v);
            let s = p + q;
            let d = p - q;
            println!(
                "{} {} {} {} {} su={} sv={} eq_ab={} eq_ba={} ne_ab={} lt_ab={} gt_ba={} le_ab={} ge_ba={} gt_ab={} lt_ba={} cmp_ab={} cmp_ba={} conv_unit_ok={} conv={} equiv={} add_unit_ok={} add={} sub_unit_ok={} sub={} div={}",
                tname, ui, show(a), vi, show(b), show(u.scale()), show(v.scale()),
                p == q, q == p, p != q, p < q, q > p, p <= q, q >= p, p > q, q < p,
                ord(PartialOrd::partial_cmp(&p, &q)), ord(PartialOrd::partial_cmp(&q, &p)),
                c.unit() == v, show(c.amount()), show(p.equiv_amount(v)),
                s.unit() == u, show(s.amount()), d.unit() == u, show(d.amount()), show(p / q)
            );
        }
        _ => panic!("unknown mode"),
    }
}

// scalar operations and constructors (C08), rates (C13)
fn scalar_ops<Q>(tname: &str, args: &[String])
where
    Q: Quantity + std::ops::Mul<AmountT, Output = Q> + std::ops::Div<AmountT, Output = Q>,
    AmountT: std::ops::Mul<Q, Output = Q> + std::ops::Mul<<Q as Quantity>::UnitType, Output = Q>,
    <Q as Quantity>::UnitType: std::ops::Mul<AmountT, Output = Q>,
{
    let us = units::<Q>();
    let (ui, a, k): (usize, AmountT, AmountT) = (args[0].parse().unwrap(), parse_amnt(&args[1]), parse_amnt(&args[2]));
    let u = us[ui];
    let q = Q::new(a, u);
    let (c1, c2) = (a * u, u * a);
    let (m1, m2, d) = (k * q, q * k, q / k);
    println!(
        "scalar {} {} {} {} new_ok={} new={} axu_ok={} axu={} uxa_ok={} uxa={} kxq_ok={} kxq={} qxk_ok={} qxk={} qdk_ok={} qdk={}",
        tname, ui, show(a), show(k),
        q.unit() == u, show(q.amount()), c1.unit() == u, show(c1.amount()), c2.unit() == u, show(c2.amount()),
        m1.unit() == u, show(m1.amount()), m2.unit() == u, show(m2.amount()), d.unit() == u, show(d.amount())
    );
}

type TermQ = quantities::mass::Mass;
fn rate_ops<X>(tname: &str, args: &[String])
where
    X: Quantity + std::ops::Mul<Rate<TermQ, X>, Output = TermQ> + std::ops::Div<X, Output = AmountT>,
    TermQ: std::ops::Div<Rate<TermQ, X>, Output = X>,
{
    // rate <X> <ti> <ta> <pm> <pi> <vi> <b> <mi> <m> : rate = ta TermUnit[ti] per pm XUnit[pi]; q = b XUnit[vi]; t = m TermUnit[mi]
    let xs = units::<X>();
    let ts = units::<TermQ>();
    let (ti, ta, pm, pi, vi, b, mi, m): (usize, AmountT, AmountT, usize, usize, AmountT, usize, AmountT) = (
        args[0].parse().unwrap(), parse_amnt(&args[1]), parse_amnt(&args[2]), args[3].parse().unwrap(),
        args[4].parse().unwrap(), parse_amnt(&args[5]), args[6].parse().unwrap(), parse_amnt(&args[7]));
    let rate = Rate::<TermQ, X>::new(ta, ts[ti], pm, xs[pi]);
    let rate2 = Rate::<TermQ, X>::from_qty_vals(TermQ::new(ta, ts[ti]), X::new(pm, xs[pi]));
    let comps_ok = rate.term_unit() == ts[ti] && rate.per_unit() == xs[pi] && rate2.term_unit() == ts[ti] && rate2.per_unit() == xs[pi];
    let rr = rate.reciprocal().reciprocal();
    let recip = rate.reciprocal();
    let recip_ok = recip.term_unit() == xs[pi] && recip.per_unit() == ts[ti] && rr.term_unit() == ts[ti] && rr.per_unit() == xs[pi];
    let q = X::new(b, xs[vi]);
    let t = TermQ::new(m, ts[mi]);
    let r1 = rate * q;
    let r2 = q * rate;
    let r3 = t / rate;
    let r4 = t * recip;
    let idx = |u: <X as Quantity>::UnitType| xs.iter().position(|w| *w == u).unwrap();
    println!(
        "rate {} comps_ok={} ta1={} pm1={} ta2={} pm2={} recip_ok={} rta={} rpm={} rrta={} rrpm={} r1_unit_ok={} r1={} r2_unit_ok={} r2={} r3_unit={} r3={} r4_unit={} r4={}",
        tname, comps_ok, show(rate.term_amount()), show(rate.per_unit_multiple()), show(rate2.term_amount()), show(rate2.per_unit_multiple()),
        recip_ok, show(recip.term_amount()), show(recip.per_unit_multiple()), show(rr.term_amount()), show(rr.per_unit_multiple()),
        r1.unit() == ts[ti], show(r1.amount()), r2.unit() == ts[ti], show(r2.amount()),
        idx(r3.unit()), show(r3.amount()), idx(r4.unit()), show(r4.amount())
    );
}

// types without reference unit (C10): every like operation, panics observed with catch_unwind
fn noref_ops<Q>(tname: &str, args: &[String])
where
    Q: Quantity + PartialEq + PartialOrd + std::ops::Add<Q, Output = Q> + std::ops::Sub<Q, Output = Q> + std::ops::Div<Q, Output = AmountT> + std::panic::UnwindSafe + std::panic::RefUnwindSafe,
{
    let us = units::<Q>();
    let (ui, a, vi, b): (usize, AmountT, usize, AmountT) = (args[0].parse().unwrap(), parse_amnt(&args[1]), args[2].parse().unwrap(), parse_amnt(&args[3]));
    let (p, q) = (Q::new(a, us[ui]), Q::new(b, us[vi]));
    std::panic::set_hook(Box::new(|_| {}));
    let add = std::panic::catch_unwind(|| p + q);
    let sub = std::panic::catch_unwind(|| p - q);
    let div = std::panic::catch_unwind(|| p / q);
    let f = |r: &std::thread::Result<Q>| match r { Ok(x) => format!("{}:{}", us.iter().position(|w| *w == x.unit()).unwrap(), show(x.amount())), Err(_) => "panic".to_string() };
    println!(
        "noref {} {} {} {} {} eq={} ne={} cmp={} lt={} le={} gt={} ge={} add={} sub={} div={}",
        tname, ui, show(a), vi, show(b), p == q, p != q, ord(PartialOrd::partial_cmp(&p, &q)), p < q, p <= q, p > q, p >= q,
        f(&add), f(&sub), match &div { Ok(x) => show(*x), Err(_) => "panic".to_string() }
    );
}

include!(concat!(env!("QREPLAY_GEN"), "/derived.rs"));

macro_rules! dispatch {
    ($t:expr, $mode:expr, $args:expr, $($name:literal => $ty:ty),* $(,)?) => {
        match $t {
            $($name => like_ops::<$ty>($name, $mode, $args),)*
            "ALL" => { $(like_ops::<$ty>($name, $mode, $args);)* }
            other => {
                if !astro_dispatch(other, $mode, $args) { panic!("unknown type {}", other) }
            }
        }
    };
}

#[cfg(feature = "astro")]
fn astro_dispatch(t: &str, mode: &str, args: &[String]) -> bool {
    match t {
        "astro::Mass" => like_ops::<astronomical_quantities::Mass>(t, mode, args),
        "astro::Length" => like_ops::<astronomical_quantities::Length>(t, mode, args),
        "astro::Duration" => like_ops::<astronomical_quantities::Duration>(t, mode, args),
        "astro::Speed" => like_ops::<astronomical_quantities::Speed>(t, mode, args),
        "ASTRO" => {
            for n in ["astro::Mass", "astro::Length", "astro::Duration", "astro::Speed"] {
                astro_dispatch(n, mode, args);
            }
        }
        _ => return false,
    }
    true
}
#[cfg(not(feature = "astro"))]
fn astro_dispatch(_t: &str, _mode: &str, _args: &[String]) -> bool {
    false
}

fn main() {
    let args: Vec<String> = std::env::args().skip(1).collect();
    // usage: qreplay <mode> <Type|ALL> [args..]   (several invocations may be given on stdin, one per line)
    let mut jobs: Vec<Vec<String>> = Vec::new();
    if args.first().map(|s| s.as_str()) == Some("-") {
        use std::io::BufRead;
        for l in std::io::stdin().lock().lines() {
            let l = l.unwrap();
            if !l.trim().is_empty() {
                jobs.push(l.split_whitespace().map(|s| s.to_string()).collect());
            }
        }
    } else {
        jobs.push(args);
    }
    for j in jobs {
        let mode = j[0].as_str();
        let t = j[1].as_str();
        let rest = &j[2..];
        if mode == "derived" { derived(t, rest); continue; }
        if mode == "noref" { noref_ops::<quantities::temperature::Temperature>("Temperature", rest); continue; }
        if mode == "scalar" || mode == "rate" {
            macro_rules! sr { ($($name:literal => $ty:ty),* $(,)?) => { match t { $($name => if mode == "scalar" { scalar_ops::<$ty>($name, rest) } else { rate_ops::<$ty>($name, rest) },)* other => panic!("unknown type {}", other) } } }
            sr!("Mass" => quantities::mass::Mass, "Length" => quantities::length::Length, "Duration" => quantities::duration::Duration,
                "Area" => quantities::area::Area, "Volume" => quantities::volume::Volume, "Speed" => quantities::speed::Speed,
                "Acceleration" => quantities::acceleration::Acceleration, "Force" => quantities::force::Force, "Energy" => quantities::energy::Energy,
                "Power" => quantities::power::Power, "Frequency" => quantities::frequency::Frequency, "DataVolume" => quantities::datavolume::DataVolume,
                "DataThroughput" => quantities::datathroughput::DataThroughput, "Temperature" => quantities::temperature::Temperature);
            continue;
        }
        dispatch!(t, mode, rest,
            "Mass" => quantities::mass::Mass,
            "Length" => quantities::length::Length,
            "Duration" => quantities::duration::Duration,
            "Area" => quantities::area::Area,
            "Volume" => quantities::volume::Volume,
            "Speed" => quantities::speed::Speed,
            "Acceleration" => quantities::acceleration::Acceleration,
            "Force" => quantities::force::Force,
            "Energy" => quantities::energy::Energy,
            "Power" => quantities::power::Power,
            "Frequency" => quantities::frequency::Frequency,
            "DataVolume" => quantities::datavolume::DataVolume,
            "DataThroughput" => quantities::datathroughput::DataThroughput,
        );
    }
}
