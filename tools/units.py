"""Registry of verification units.  A unit is one Verus file or one Kani harness set,
rebuilt from /repo's working tree on every run; results are cached on the hash of the
generated text (which embeds the extracted code) and the tool versions."""
import os
import sys
import concurrent.futures as cf

sys.path.insert(0, os.path.dirname(os.path.abspath(__file__)))
import common
from common import Undecided
import gen_verus
import vrunner

CANARY = '''
//@ob id={unit}:canary_must_fail props={props} kind=canary
#[verifier::rlimit(3)]
proof fn canary_must_fail()
    ensures false
{{
}}
'''
# the consistency of the whole M0 axiom group is a property of contracts/shim_m0.vrs alone: it has its own small unit
# (`canary_m0`).  Using the group inside the canary of every file put its axioms into the solver context of every lemma
# of that file; one behaviour-preserving change of /repo then sent a non-linear lemma of lemmas_m1_f64 into divergence.
CANARY_M0 = '''
//@ob id=canary_m0:canary_m0_group_must_fail props={props} kind=canary
#[verifier::rlimit(3)]
proof fn canary_m0_group_must_fail(a: AmountT, b: AmountT, c: AmountT)
    ensures false
{{
    broadcast use m0_axioms;
    assert(a_eq(a, b) == a_eq(b, a));
    assert(a_mul(a, AMNT_ONE) == a);
    assert(a_div(a_mul(a, b), AMNT_ONE) == a_mul(b, a));
    assert(a_cmp(a, b) == rev(a_cmp(b, a)));
    assert(a_add(a, c) == a_add(c, a));
}}
'''

ALL_PROPS = 'C01,C02,C03,C04,C05,C07,C08,C09,C10,C13,C14,C16,C18'


def add_canary(text, unit):
    i = text.rindex('} // verus!')
    return text[:i] + CANARY.format(unit=unit, props=ALL_PROPS) + text[i:]


def gen_canary_m0():
    em = gen_verus.Emitter('canary_m0', gen_verus.Contracts('generic.toml'))
    text = gen_verus.wrap(em.render('shim_m0.vrs', gen_verus.F64_SUBST))
    i = text.rindex('} // verus!')
    return text[:i] + CANARY_M0.format(props=ALL_PROPS) + text[i:], em


def verus_unit(name, builder, canary=True):
    def run(prop, tier, seed):
        try:
            text, em = builder()
        except gen_verus.LostAnchor as e:
            raise Undecided(f'lost anchor while generating {name}: {e}')
        if text is None:
            return {'engine': 'verus', 'name': name, 'cmd': '', 'cached': False, 'wall_s': 0, 'solver_s': 0, 'obligations': [],
                    'failures': [], 'undecided': [], 'records': [], 'scan': {}}
        if canary:
            text = add_canary(text, name)
        # a function the front end rejects (construct outside Verus' subset) is demoted - contract assumed, obligation
        # undecided - and the file is verified again, so that one such function does not take the whole unit with it
        demoted = {}
        for _ in range(5):
            res = vrunner.run_verus(name, text)
            ids = []
            for u in res.get('undecided', []):
                if u.get('frontend') and u.get('obligation') and u.get('ob_kind') in ('exec', 'context') and u['obligation'] not in demoted and u['obligation'] not in ids:
                    ids.append(u['obligation'])
            if not ids:
                break
            changed = False
            for ob in ids:
                t2 = vrunner.demote(text, ob)
                if t2 is not None:
                    reason = next(u['reason'] for u in res['undecided'] if u.get('obligation') == ob)
                    props_of = next((o['props'] for o in res.get('obligations', []) if o['id'] == ob), [])
                    demoted[ob] = {'obligation': ob, 'props': props_of, 'reason': f'{ob} is outside the verifier\'s reach and was demoted to an assumed contract: {reason}'[:600]}
                    text = t2
                    changed = True
            if not changed:
                break
        for o in res.get('obligations', []):
            if o['kind'] == 'demoted' and o['id'] not in demoted:     # demoted by the generator (shape not recognised)
                demoted[o['id']] = {'obligation': o['id'], 'props': o['props'],
                                    'reason': f'{o["id"]} could not be brought into the verifier\'s reach and stands as an assumed contract ({o.get("note")})'}
        out = {
            'engine': 'verus', 'name': name, 'cmd': res.get('cmd', ''), 'cached': res.get('cached', False),
            'wall_s': res.get('wall_s', 0), 'solver_s': round(res.get('smt_ms', 0) / 1000.0, 3),
            'obligations': res.get('obligations', []), 'failures': res.get('failures', []),
            'undecided': list(res.get('undecided', [])) + list(demoted.values()), 'records': em.records if em else [],
            'scan': scan(text), 'verus_verified': res.get('verified'), 'verus_errors': res.get('errors'),
        }
        return out
    return run


def scan(text):
    out = {}
    for kw in ('external_body', 'assume(', 'admit(', 'assume_specification', 'axiom fn', 'uninterp spec fn'):
        n = text.count(kw)
        if n:
            out[kw] = n
    return out


UNITS = {}


def register(name, fn):
    UNITS[name] = fn


register('canary_m0', verus_unit('canary_m0', gen_canary_m0, canary=False))
register('gen_quantity', verus_unit('gen_quantity', gen_verus.gen_quantity))
register('gen_hasref', verus_unit('gen_hasref', gen_verus.gen_hasref))
register('lemmas_m1_f64', verus_unit('lemmas_m1_f64', gen_verus.gen_m1_f64))
register('lemmas_m1_dec', verus_unit('lemmas_m1_dec', gen_verus.gen_m1_dec))
register('gen_hasref_decok', verus_unit('gen_hasref_decok', gen_verus.gen_hasref_decok))


def run_units(names, prop, tier, seed):
    for n in names:
        if n not in UNITS:
            raise Undecided(f'unknown verification unit {n}')
    results = []
    # units are independent: run them concurrently (each tool is itself multi-threaded)
    with cf.ThreadPoolExecutor(max_workers=4) as ex:
        futs = {n: ex.submit(UNITS[n], prop, tier, seed) for n in names}
        for n in names:
            try:
                results.append(futs[n].result())
            except Undecided as e:
                # one unit that cannot be generated (lost anchor, construct outside the extractor's reach) leaves
                # that unit undecided; the other units - in particular the Kani harnesses on the compiled crate -
                # still decide what they can
                results.append({'name': n, 'engine': 'kani' if n.startswith('kani_') else 'verus', 'obligations': [],
                                'failures': [], 'undecided': [{'reason': str(e)}], 'wall_s': 0.0})
    return results

# ---------------- per-type units from the expansions ----------------
import threading
import expand
import gen_types
import decls

_types_mem = {}


C07_ARGS = {
    'q_f64': lambda: ('quantities', 'f64', decls.catalogue()),
    'q_dec': lambda: ('quantities', 'dec', decls.catalogue()),
    'astro_f64': lambda: ('astro', 'f64', decls.astro()),
}
_build_lock = threading.Lock()


def types_build(cfg, prefix, crate_root=False):
  with _build_lock:
    if (cfg, prefix) not in _types_mem:
        try:
            text, label = expand.expanded(cfg)
            c07 = C07_ARGS[cfg]() if cfg in C07_ARGS else None
            _types_mem[(cfg, prefix)] = gen_types.build_types_units(text, label, prefix, crate_root=crate_root, c07=c07)
        except gen_verus.LostAnchor as e:
            raise Undecided(f'lost anchor while generating {prefix}: {e}')
        except rsparse_err() as e:
            raise Undecided(f'expansion {cfg} does not parse: {e}')
    return _types_mem[(cfg, prefix)]


def rsparse_err():
    import rsparse
    return rsparse.ParseError


class _Rec:
    def __init__(self, records):
        self.records = records


def types_unit(cfg, prefix, which, crate_root=False):
    def builder():
        res = types_build(cfg, prefix, crate_root)
        if which not in res:
            return None, None
        text, recs = res[which]
        return text, _Rec(recs)
    return builder


for cfg, prefix, root in (('q_f64', 'types_q_f64', False), ('q_dec', 'types_q_dec', False), ('astro_f64', 'types_astro_f64', True),
                          ('fix_f64', 'types_fix_f64', True), ('fix_dec', 'types_fix_dec', True)):
    for which in ('ref', 'noref'):
        register(f'{prefix}_{which}', verus_unit(f'{prefix}_{which}', types_unit(cfg, prefix, which, root)))
    if cfg in C07_ARGS:
        register(prefix.replace('types_', 'c07_'), verus_unit(prefix.replace('types_', 'c07_'), types_unit(cfg, prefix, 'c07', root), canary=False))
        if cfg.startswith('q_'):
            register(prefix.replace('types_', 'c14_'), verus_unit(prefix.replace('types_', 'c14_'), types_unit(cfg, prefix, 'c14', root), canary=False))

# ---------------- Kani units ----------------
import gen_kani
import krunner
import spec_tables

_kani_mem = {}
KANI_CFG = {
    # cfg: (kind, features, decl source, path_of, extra deps, table crate)
    'q_f64': ('f64', ['doc'], 'catalogue'),
    'q_dec': ('dec', ['doc', 'fpdec'], 'catalogue'),
    'astro_f64': ('f64', ['doc'], 'astro'),
    'fix_f64': ('f64', [], 'fixtures'),
}


def derived_forms(declmap):
    out = []
    for name, d in declmap.items():
        if not d.derived:
            continue
        a, op, b = d.derived
        if op == '*':
            out.append((a, 'Mul', b, name))
            if a != b:
                out.append((b, 'Mul', a, name))
                out.append((name, 'Div', a, b))
            out.append((name, 'Div', b, a))
        else:
            out.append((a, 'Div', b, name))
            out.append((name, 'Mul', b, a))
            out.append((b, 'Mul', name, a))
            out.append((a, 'Div', name, b))
    return out


def kani_crate(cfg):
    with _build_lock:
        if cfg in _kani_mem:
            return _kani_mem[cfg]
        kind, feats, src = KANI_CFG[cfg]
        try:
            g = gen_kani.KaniGen(kind)
            extra = ''
            if src == 'catalogue':
                dm = decls.catalogue()
                g.add_types(dm, lambda d: f'quantities::{d.module}')
                tab = spec_tables.Table('quantities')
            elif src == 'fixtures':
                dm = {q.name: q for q in decls.parse_decls(os.path.join(common.VERIF, 'fixtures', 'src', 'lib.rs'))}
                for q in dm.values():
                    q.module = None
                g.add_types(dm, lambda d: 'qfixtures', 'fix')
                extra = f'qfixtures = {{ path = "{common.VERIF}/fixtures" }}\n'
                tab = None
            else:
                dm = decls.astro()
                g.add_types(dm, lambda d: 'astronomical_quantities', 'astro')
                extra = f'astronomical-quantities = {{ path = "{common.REPO}/astronimical_quantities" }}\n'
                tab = spec_tables.Table('astro')
            si = {p['const'] for p in gen_kani.si_names()}
            byname = {t.name: t for t in g.types}
            for t in g.types:
                g.type_common(t)
                g.gen_reg(t)
                g.gen_sym(t)
                if tab is not None:
                    g.gen_tab(t, tab.units(t.name), si)
                if t.has_ref:
                    g.gen_ufs(t)
                    g.gen_fit(t)
                    if kind == 'f64':
                        g.gen_cvt(t)
                        g.gen_cops(t)
                        g.gen_total_like(t)
                else:
                    g.gen_noref(t)
            if kind == 'f64':
                refd = [t for t in g.types if t.has_ref]
                for k, t in enumerate(refd):
                    if len(refd) > 1:
                        g.gen_total_rate(t, refd[(k + 1) % len(refd)])   # Rate<t, next type>: every type once as term, once as per
                        g.gen_crate(t, refd[(k + 1) % len(refd)])
                for a, op, b, r in derived_forms(dm):
                    g.gen_total_derived(byname, a, op, b, r)
                    g.gen_cderived(byname, a, op, b, r)
            if src == 'catalogue':
                gen_kani.gen_si(g)
                gen_kani.gen_conv(g)
                gen_kani.gen_m0(g)
                gen_kani.gen_one(g)
        except gen_verus.LostAnchor as e:
            raise Undecided(f'lost anchor while generating kani crate {cfg}: {e}')
        text = g.render()
        d = krunner.write_crate(cfg, text, feats, extra)
        _kani_mem[cfg] = (d, text, g.meta)
        return _kani_mem[cfg]


def kani_unit(cfg, family):
    def run(prop, tier, seed):
        d, text, meta = kani_crate(cfg)
        # quick tier: a family that normally takes one to three minutes is given 15 minutes, not 50
        return krunner.run_family(cfg, d, family, text, meta, jobs=12, timeout=900 if tier == 'quick' else 3000)
    return run


for cfg in KANI_CFG:
    for fam in ('reg', 'sym', 'symc', 'syma', 'symx', 'm0', 'tab', 'ufs', 'fit', 'cvt', 'cops', 'cderived', 'crt', 'total', 'totald', 'noref', 'si', 'si2', 'conv'):
        register(f'kani_{cfg}:{fam}', kani_unit(cfg, fam))
