"""Registry of verification units.  A unit is one Verus file or one Kani harness set,
rebuilt from /repo's working tree on every run; results are cached on the hash of the
generated text (which embeds the extracted code) and the tool versions."""
import os
import sys
import concurrent.futures as cf

sys.path.insert(0, os.path.dirname(os.path.abspath(__file__)))
import common
from common import Undecided
import gen_verus
import vrunner

CANARY = '''
//@ob id={unit}:canary_must_fail props={props} kind=canary
proof fn canary_must_fail()
    ensures false
{{
    broadcast use m0_axioms;
}}
'''

ALL_PROPS = 'C01,C02,C03,C04,C05,C07,C08,C09,C10,C13,C14,C16,C18'


def add_canary(text, unit):
    i = text.rindex('} // verus!')
    return text[:i] + CANARY.format(unit=unit, props=ALL_PROPS) + text[i:]


def verus_unit(name, builder, canary=True):
    def run(prop, tier, seed):
        try:
            text, em = builder()
        except gen_verus.LostAnchor as e:
            raise Undecided(f'lost anchor while generating {name}: {e}')
        if text is None:
            return {'engine': 'verus', 'name': name, 'cmd': '', 'cached': False, 'wall_s': 0, 'solver_s': 0, 'obligations': [],
                    'failures': [], 'undecided': [], 'records': [], 'scan': {}}
        if canary:
            text = add_canary(text, name)
        res = vrunner.run_verus(name, text)
        out = {
            'engine': 'verus', 'name': name, 'cmd': res.get('cmd', ''), 'cached': res.get('cached', False),
            'wall_s': res.get('wall_s', 0), 'solver_s': round(res.get('smt_ms', 0) / 1000.0, 3),
            'obligations': res.get('obligations', []), 'failures': res.get('failures', []),
            'undecided': res.get('undecided', []), 'records': em.records if em else [],
            'scan': scan(text), 'verus_verified': res.get('verified'), 'verus_errors': res.get('errors'),
        }
        return out
    return run


def scan(text):
    out = {}
    for kw in ('external_body', 'assume(', 'admit(', 'assume_specification', 'axiom fn', 'uninterp spec fn'):
        n = text.count(kw)
        if n:
            out[kw] = n
    return out


UNITS = {}


def register(name, fn):
    UNITS[name] = fn


register('gen_quantity', verus_unit('gen_quantity', gen_verus.gen_quantity))
register('gen_hasref', verus_unit('gen_hasref', gen_verus.gen_hasref))


def run_units(names, prop, tier, seed):
    for n in names:
        if n not in UNITS:
            raise Undecided(f'unknown verification unit {n}')
    results = []
    # units are independent: run them concurrently (each tool is itself multi-threaded)
    with cf.ThreadPoolExecutor(max_workers=4) as ex:
        futs = {n: ex.submit(UNITS[n], prop, tier, seed) for n in names}
        for n in names:
            results.append(futs[n].result())
    return results

# ---------------- per-type units from the expansions ----------------
import threading
import expand
import gen_types
import decls

_types_mem = {}


C07_ARGS = {
    'q_f64': lambda: ('quantities', 'f64', decls.catalogue()),
    'q_dec': lambda: ('quantities', 'dec', decls.catalogue()),
    'astro_f64': lambda: ('astro', 'f64', decls.astro()),
}
_build_lock = threading.Lock()


def types_build(cfg, prefix, crate_root=False):
  with _build_lock:
    if (cfg, prefix) not in _types_mem:
        try:
            text, label = expand.expanded(cfg)
            c07 = C07_ARGS[cfg]() if cfg in C07_ARGS else None
            _types_mem[(cfg, prefix)] = gen_types.build_types_units(text, label, prefix, crate_root=crate_root, c07=c07)
        except gen_verus.LostAnchor as e:
            raise Undecided(f'lost anchor while generating {prefix}: {e}')
        except rsparse_err() as e:
            raise Undecided(f'expansion {cfg} does not parse: {e}')
    return _types_mem[(cfg, prefix)]


def rsparse_err():
    import rsparse
    return rsparse.ParseError


class _Rec:
    def __init__(self, records):
        self.records = records


def types_unit(cfg, prefix, which, crate_root=False):
    def builder():
        res = types_build(cfg, prefix, crate_root)
        if which not in res:
            return None, None
        text, recs = res[which]
        return text, _Rec(recs)
    return builder


for cfg, prefix, root in (('q_f64', 'types_q_f64', False), ('q_dec', 'types_q_dec', False), ('astro_f64', 'types_astro_f64', True),
                          ('fix_f64', 'types_fix_f64', True), ('fix_dec', 'types_fix_dec', True)):
    for which in ('ref', 'noref'):
        register(f'{prefix}_{which}', verus_unit(f'{prefix}_{which}', types_unit(cfg, prefix, which, root)))
    if cfg in C07_ARGS:
        register(prefix.replace('types_', 'c07_'), verus_unit(prefix.replace('types_', 'c07_'), types_unit(cfg, prefix, 'c07', root), canary=False))
