"""Property table: which verification units carry the obligations of each property."""

TRUSTED_BASE = [
    'Verus 0.2026.09.13 + Z3 (verifier and solver themselves)',
    'rustc -Zunpretty=expanded prints the code that is compiled; extractor rewrites R1-R7 (DESIGN 2.1)',
    'A-amount: M0 axioms on the abstract amount operations (contracts/shim_m0.vrs)',
    'A-derive: derived PartialEq/Eq/Copy/Clone of generated enums and structs are structural',
]

PROPS = {
    'C01': {
        'level': 'proof',
        'quick': ['gen_hasref'],
        'thorough': [],
        'expect': ['gen_hasref:trait LinearScaledUnit::ratio', 'gen_hasref:trait HasRefUnit::equiv_amount',
                   'gen_hasref:trait HasRefUnit::convert'],
    },
    'C02': {
        'level': 'proof',
        'quick': ['gen_hasref'],
        'expect': ['gen_hasref:trait HasRefUnit::eq', 'gen_hasref:trait HasRefUnit::partial_cmp',
                   'gen_hasref:lemma_C02_L3_eq_symmetric', 'gen_hasref:lemma_C02_L3_cmp_antisymmetric',
                   'gen_hasref:lemma_C02_L3_cmp_equal_iff_eq'],
    },
    'C03': {
        'level': 'proof',
        'quick': ['gen_hasref'],
        'expect': ['gen_hasref:trait HasRefUnit::add', 'gen_hasref:trait HasRefUnit::sub', 'gen_hasref:trait HasRefUnit::div'],
    },
    'C10': {
        'level': 'proof',
        'quick': ['gen_quantity'],
        'expect': ['gen_quantity:trait Quantity::eq', 'gen_quantity:trait Quantity::partial_cmp', 'gen_quantity:trait Quantity::add',
                   'gen_quantity:trait Quantity::sub', 'gen_quantity:trait Quantity::div'],
    },
}


def check_inventory(prop, obligations, tier):
    have = {o['id'] for o in obligations}
    return [e for e in PROPS[prop].get('expect', []) if e not in have]
