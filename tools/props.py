"""Property table: which verification units carry the obligations of each property."""
import re

TRUSTED_BASE = [
    'Verus 0.2026.09.13 + Z3, Kani 0.68 + CBMC 6.11 (verifiers and solvers themselves)',
    'rustc -Zunpretty=expanded prints the code that is compiled; extractor rewrites R1-R7 (DESIGN 2.1); literal tokens parsed to exact rationals by the generator',
    'A-amount: M0 axioms on the abstract amount operations (contracts/shim_m0.vrs: a_eq symmetric, a_cmp antisymmetric and consistent with a_eq, * and + commutative, x/1 = x*1 = x); M1-f64: standard model of binary64 under explicit side conditions (contracts/m1_f64.vrs); machine arithmetic is not treated as mathematical',
    'A-derive: derived PartialEq/Eq/Copy/Clone of generated enums and structs are structural (external_body eq on unit enums)',
    'A-std: core/alloc code (iterators, String, str comparison, PartialOrd-derived operators) is executed as compiled MIR by Kani and specified by vstd for Verus; not verified here',
    'A-fpdec: fpdec::Decimal operators (dependency) are not verified; decimal configuration enters Verus through the abstract amount type only',
    'external_body / axiom items: amount shim, unit_from_scale and _fit_select (contracts K-ufs/K-fit proved by Kani per type), symbol(), unit enum eq, literal constants; counts per unit under by_backend.verus.unproved_constructs_scan',
    'independent tables spec/units.toml, spec/si_prefixes.toml, spec/temperature.toml transcribe the published definitions',
]

TYPES_Q = ['types_q_f64_ref', 'types_q_f64_noref', 'types_q_dec_ref', 'types_q_dec_noref', 'types_astro_f64_ref']
TYPES_REF = ['types_q_f64_ref', 'types_q_dec_ref', 'types_astro_f64_ref']
TYPES_NOREF = ['types_q_f64_noref', 'types_q_dec_noref']
TYPES_FIX = ['types_fix_f64_ref', 'types_fix_f64_noref', 'types_fix_dec_ref', 'types_fix_dec_noref']
TYPES_THOROUGH = ['types_astro_f64_ref', 'types_fix_f64_ref', 'types_fix_f64_noref', 'types_fix_dec_ref', 'types_fix_dec_noref']

PROPS = {
    'C01': {'level': 'proof', 'quick': ['gen_hasref', 'lemmas_m1_f64', 'lemmas_m1_dec'] + TYPES_REF + ['kani_q_f64:cvt', 'kani_astro_f64:cvt', 'kani_fix_f64:cvt', 'kani_q_f64:tab', 'kani_astro_f64:tab'],
            'thorough': TYPES_FIX,
            'expect': ['gen_hasref:trait LinearScaledUnit::ratio', 'gen_hasref:trait HasRefUnit::equiv_amount',
                       'gen_hasref:trait HasRefUnit::convert', 'gen_hasref:lemma_C01_L1_requested_unit',
                       'gen_hasref:lemma_C01_L2_same_unit_identity', 'gen_hasref:lemma_C01_L3_equiv_amount_is_converted_amount', 'lemmas_m1_f64:lemma_C01_L4_f64_converted_magnitude']},
    'C02': {'level': 'proof', 'quick': ['gen_hasref', 'lemmas_m1_f64', 'lemmas_m1_dec'] + TYPES_REF + ['kani_q_f64:m0'] + ['kani_q_f64:cops', 'kani_astro_f64:cops', 'kani_fix_f64:cops'] + ['kani_q_f64:total', 'kani_astro_f64:total'], 'thorough': TYPES_FIX,
            'expect': ['gen_hasref:trait HasRefUnit::eq', 'gen_hasref:trait HasRefUnit::partial_cmp',
                       'gen_hasref:lemma_C02_L3_eq_symmetric', 'gen_hasref:lemma_C02_L3_cmp_antisymmetric',
                       'gen_hasref:lemma_C02_L3_cmp_equal_iff_eq', 'gen_hasref:lemma_C02_L1_same_unit_is_amount_comparison', 'lemmas_m1_f64:lemma_C02_L2_f64_physical_order']},
    'C03': {'level': 'proof', 'quick': ['gen_hasref', 'lemmas_m1_f64', 'lemmas_m1_dec'] + TYPES_REF + ['kani_q_f64:cops', 'kani_astro_f64:cops', 'kani_fix_f64:cops'], 'thorough': TYPES_FIX,
            'expect': ['gen_hasref:trait HasRefUnit::add', 'gen_hasref:trait HasRefUnit::sub', 'gen_hasref:trait HasRefUnit::div',
                       'gen_hasref:lemma_C03_same_unit_is_amount_arithmetic', 'gen_hasref:lemma_C03_result_in_left_unit', 'lemmas_m1_f64:lemma_C03_f64_sum_magnitude', 'lemmas_m1_f64:lemma_C03_f64_ratio_magnitude']},
    'C04': {'level': 'proof', 'quick': ['gen_hasref', 'lemmas_m1_f64', 'lemmas_m1_dec'] + TYPES_REF + ['kani_q_f64:cderived', 'kani_astro_f64:cderived', 'kani_fix_f64:cderived'] + ['kani_q_f64:ufs', 'kani_q_f64:fit', 'kani_astro_f64:ufs', 'kani_astro_f64:fit'], 'thorough': TYPES_FIX,
            'expect': ['gen_hasref:trait HasRefUnit::_fit', 'lemmas_m1_f64:lemma_C04_f64_product_magnitude_fitted', 'lemmas_m1_f64:lemma_C04_f64_quotient_magnitude_natural',
                       'lemmas_m1_f64:lemma_C04_roundtrip_magnitude']},
    'C05': {'level': 'proof', 'quick': ['gen_hasref'] + TYPES_REF + ['kani_q_f64:ufs', 'kani_q_f64:fit', 'kani_q_f64:m0', 'kani_astro_f64:ufs', 'kani_astro_f64:fit'],
            'thorough': TYPES_FIX + ['kani_q_dec:ufs', 'kani_fix_f64:ufs', 'kani_fix_f64:fit'],
            'expect': ['gen_hasref:trait HasRefUnit::_fit', 'gen_hasref:lemma_C05_natural_unit_product', 'gen_hasref:lemma_C05_natural_unit_quotient',
                       'gen_hasref:lemma_C05_fitted_unit_product', 'gen_hasref:lemma_C05_fitted_unit_quotient',
                       'gen_hasref:lemma_C05_reference_units_product', 'gen_hasref:lemma_C05_reference_units_quotient']},
    'C07': {'level': 'proof', 'quick': ['c07_q_f64', 'c07_q_dec', 'c07_astro_f64'] + TYPES_REF + ['kani_q_f64:tab', 'kani_astro_f64:tab'],
            'thorough': TYPES_FIX + ['kani_q_dec:tab'],
            'expect': ['c07_q_f64:lemma_C07_scale_Length_Inch', 'c07_q_dec:lemma_C07_scale_Length_Inch', 'c07_astro_f64:lemma_C07_scale_Length_Parsec',
                       'c07_q_f64:lemma_C07_si_prefixes_consistent_Mass', 'types_q_f64_ref:lemma_C07_ref_unit_scale_one_Length',
                       'types_q_f64_ref:impl LinearScaledUnit for LengthUnit::scale']},
    'C08': {'level': 'proof', 'quick': ['gen_hasref'] + TYPES_Q + ['kani_q_f64:reg', 'kani_q_f64:m0'] + ['kani_q_f64:cops', 'kani_astro_f64:cops', 'kani_fix_f64:cops', 'kani_q_f64:total', 'kani_astro_f64:total'], 'thorough': TYPES_FIX,
            'expect': ['gen_hasref:impl Quantity for AmountT::new', 'gen_hasref:impl Quantity for AmountT::amount',
                       'gen_hasref:impl Quantity for AmountT::unit', 'gen_hasref:impl LinearScaledUnit for One::scale',
                       'gen_hasref:impl Mul < One > for AmountT::mul', 'gen_hasref:impl Mul < AmountT > for One::mul']},
    'C09': {'level': 'proof', 'quick': TYPES_REF + ['kani_q_f64:symx', 'kani_fix_f64:symx', 'kani_q_f64:reg', 'kani_q_f64:ufs', 'kani_q_f64:sym', 'kani_q_f64:syma', 'kani_astro_f64:syma', 'kani_astro_f64:reg', 'kani_astro_f64:ufs', 'kani_astro_f64:sym',
                                         'kani_fix_f64:reg', 'kani_fix_f64:ufs', 'kani_fix_f64:sym'],
            'thorough': TYPES_FIX + ['kani_q_dec:reg', 'kani_q_dec:ufs', 'kani_q_dec:sym', 'kani_q_f64:symc'],
            'expect': ['kani_q_f64:reg::k_reg_Length', 'kani_q_f64:reg::k_asqty_Length', 'kani_q_f64:ufs::k_ufs_Length',
                       'kani_q_f64:sym::k_sym_declared_Length', 'kani_q_f64:reg::k_reg_Temperature']},
    'C10': {'level': 'proof', 'quick': ['gen_quantity'] + TYPES_NOREF + ['types_fix_f64_noref', 'kani_q_f64:noref', 'kani_fix_f64:noref'],
            'thorough': ['types_fix_dec_noref', 'kani_fix_f64:reg'],
            'expect': ['gen_quantity:trait Quantity::eq', 'gen_quantity:trait Quantity::partial_cmp', 'gen_quantity:trait Quantity::add',
                       'gen_quantity:trait Quantity::sub', 'gen_quantity:trait Quantity::div',
                       'gen_quantity:lemma_C10_equal_only_if_same_unit_and_amount', 'gen_quantity:lemma_C10_different_units_unordered']},
    'C14': {'level': 'proof', 'quick': ['kani_q_f64:conv', 'c14_q_f64', 'c14_q_dec'], 'thorough': [],
            'expect': ['kani_q_f64:conv::k_conv_select_n3', 'kani_q_f64:conv::k_conv_temperature_total', 'kani_q_f64:conv::k_conv_dataflow', 'c14_q_f64:lemma_C14_row_Kelvin_to_Degree_Celsius', 'c14_q_dec:lemma_C14_inverse_Degree_Celsius_Kelvin',
                       'c14_q_f64:lemma_C14_compose_Kelvin_Degree_Celsius_Degree_Fahrenheit']},
    'C16': {'level': 'proof', 'quick': ['kani_q_f64:si', 'kani_q_f64:si2'],
            'expect': ['kani_q_f64:si::k_si_from_exp_all', 'kani_q_f64:si::k_si_iter', 'kani_q_f64:si::k_si_row_KILO']},
    'C18': {'level': 'proof', 'quick': ['gen_hasref', 'gen_hasref_decok', 'gen_quantity', 'types_q_f64_ref', 'types_q_f64_noref', 'kani_q_f64:total', 'kani_q_f64:totald',
                                          'kani_q_f64:ufs', 'kani_q_f64:fit', 'kani_q_f64:sym', 'kani_q_f64:conv', 'kani_q_f64:noref',
                                          'types_astro_f64_ref', 'kani_astro_f64:total', 'kani_astro_f64:totald', 'kani_astro_f64:ufs', 'kani_astro_f64:fit'],
            'thorough': TYPES_FIX + ['kani_fix_f64:total', 'kani_fix_f64:totald', 'kani_fix_f64:ufs', 'kani_fix_f64:fit', 'kani_fix_f64:sym', 'kani_fix_f64:noref'],
            'expect': ['gen_hasref:trait HasRefUnit::_fit', 'kani_q_f64:fit::k_fit_Length', 'kani_q_f64:total::k_total_like_Length',
                       'kani_q_f64:total::k_total_rate_Length_per_Duration',
                       'gen_hasref_decok:trait HasRefUnit::equiv_amount', 'gen_hasref_decok:trait HasRefUnit::div', 'gen_hasref_decok:trait HasRefUnit::_fit',
                       'gen_hasref_decok:lemma_C18_dec_equiv_amount_total', 'gen_hasref_decok:lemma_C18_dec_comparison_total',
                       'gen_hasref_decok:lemma_C18_dec_sum_difference_total', 'gen_hasref_decok:lemma_C18_dec_ratio_total',
                       'gen_hasref_decok:lemma_C18_dec_fit_total', 'gen_hasref_decok:lemma_C18_dec_derived_product_natural_total',
                       'gen_hasref_decok:lemma_C18_dec_derived_quotient_natural_total', 'gen_hasref_decok:lemma_C18_dec_derived_product_fitted_total',
                       'gen_hasref_decok:lemma_C18_dec_derived_quotient_fitted_total',
                       'gen_hasref_decok:impl Mul<PQ> for Rate::mul', 'gen_hasref_decok:lemma_C18_dec_rate_application_total'],
            'assumptions': ['A-fpdec-range (decimal half, contracts/lemmas_c18_dec.vrs ax_fpdec_*): an fpdec operation whose operands and exact result are at most 1e20 in absolute value, divisor non-zero, does not panic - read off fpdec 0.11 (i128 coefficient, at most 18 fractional digits), not verified',
                            'decimal half: exec-level (every operation performed is within the stated precondition) for the generic HasRefUnit methods (equiv_amount, convert, eq, partial_cmp, add, sub, div, _fit) and LinearScaledUnit::ratio; for the generated derived operators only the operations of their Layer-A normal form are examined (spec level: natural-unit branch proved, fitted-unit branch refuted - findings F4, F5); rate application (decimal half): `Mul<PQ> for Rate` is verified exec-level under rate_mul_ok (the like division with the own precondition of the operand type, then / per_unit_multiple, then * term_amount, nothing else) and lemma_C18_dec_rate_application_total derives rate_mul_ok from the range conditions under the hypothesis like_div_is_hasref (the `/` of the operand type is HasRefUnit::div with precondition div_ok); the generated forwarding operators q * rate and q / rate are proved per type to equal that normal form (of the rate resp. its reciprocal) but their decimal preconditions are not instantiated per type']},
    'C13': {'level': 'proof', 'quick': ['gen_quantity', 'lemmas_m1_f64'] + TYPES_Q + ['kani_q_f64:crt', 'kani_astro_f64:crt', 'kani_fix_f64:crt'] + ['kani_q_f64:reg'], 'thorough': TYPES_FIX,
            'expect': ['gen_quantity:impl Rate::new', 'gen_quantity:impl Rate::from_qty_vals', 'gen_quantity:impl Rate::term_amount',
                       'gen_quantity:impl Rate::term_unit', 'gen_quantity:impl Rate::per_unit_multiple', 'gen_quantity:impl Rate::per_unit',
                       'gen_quantity:impl Rate::reciprocal', 'gen_quantity:impl Mul<PQ> for Rate::mul', 'gen_quantity:trait Unit::unit_as_qty',
                       'gen_quantity:lemma_C13_reciprocal_involution', 'gen_quantity:lemma_C13_reciprocal_swaps',
                       'gen_quantity:lemma_C13_div_is_mul_by_reciprocal']},
}


def check_inventory(prop, obligations, tier):
    have = {o['id'] for o in obligations}
    return [e for e in PROPS[prop].get('expect', []) if e not in have]
