"""Search for a concrete failing input of a property on the REAL code (replay binary linked
against /repo) and judge it with exact rationals.  Best effort; never decides a check."""
import math
import os
import random
import struct
import sys
from fractions import Fraction

sys.path.insert(0, os.path.dirname(os.path.abspath(__file__)))
from common import run, VERIF, BUILD

U = Fraction(1, 2 ** 53)
TYPES = ['Length', 'Mass', 'Duration', 'Area', 'Volume', 'Speed', 'Acceleration', 'Force', 'Energy', 'Power',
         'Frequency', 'DataVolume', 'DataThroughput']


def build(cfg='f64'):
    tgt = os.path.join(BUILD, f'replay-{cfg}')
    cmd = ['cargo', 'build', '--release', '--offline', '--target-dir', tgt]
    cmd += ['--features', 'dec' if cfg == 'dec' else 'astro']
    rc, out, err, _ = run(cmd, cwd=os.path.join(VERIF, 'replay'), timeout=900)
    if rc != 0:
        raise RuntimeError('replay crate does not build: ' + err[-1500:])
    return os.path.join(tgt, 'release', 'qreplay')


def bits(x):
    return '0x%016x' % struct.unpack('<Q', struct.pack('<d', x))[0]


def unbits(s):
    return struct.unpack('<d', struct.pack('<Q', int(s, 16)))[0]


def nextafter(x, d):
    return math.nextafter(x, d)


def parse_line(line):
    f = line.split()
    d = {'type': f[0], 'ui': int(f[1]), 'a': f[2], 'vi': int(f[3]), 'b': f[4]}
    for kv in f[5:]:
        k, v = kv.split('=', 1)
        d[k] = v
    return d


REV = {'Less': 'Greater', 'Greater': 'Less', 'Equal': 'Equal', 'None': 'None'}


def judge(prop, d):
    """returns a description of what fails for this observation, or None"""
    a, b = unbits(d['a']), unbits(d['b'])
    su, sv = unbits(d['su']), unbits(d['sv'])
    if any(math.isnan(x) or math.isinf(x) or (x != 0 and abs(x) < 1e-290) for x in (a, b)):
        return None
    A, B = Fraction(a) * Fraction(su), Fraction(b) * Fraction(sv)
    t = lambda s: s == 'true'
    if prop == 'C02':
        if t(d['eq_ab']) != t(d['eq_ba']):
            return f'a == b is {d["eq_ab"]} but b == a is {d["eq_ba"]}'
        if t(d['lt_ab']) != t(d['gt_ba']) or t(d['gt_ab']) != t(d['lt_ba']):
            return f'a < b is {d["lt_ab"]} but b > a is {d["gt_ba"]} (a > b {d["gt_ab"]}, b < a {d["lt_ba"]})'
        if d['cmp_ab'] != REV[d['cmp_ba']]:
            return f'partial_cmp(a,b)={d["cmp_ab"]} but partial_cmp(b,a)={d["cmp_ba"]}'
        if (d['cmp_ab'] == 'Equal') != t(d['eq_ab']):
            return f'partial_cmp(a,b)={d["cmp_ab"]} but a == b is {d["eq_ab"]}'
        if t(d['ne_ab']) == t(d['eq_ab']):
            return 'a != b is not the negation of a == b'
        tol = 8 * U * max(abs(A), abs(B))
        if abs(A - B) > tol:
            want = 'Less' if A < B else 'Greater'
            if t(d['eq_ab']) or d['cmp_ab'] != want:
                return f'magnitudes differ beyond rounding (exact order {want}) but == is {d["eq_ab"]}, partial_cmp {d["cmp_ab"]}'
            if t(d['lt_ab']) != (want == 'Less') or t(d['le_ab']) != (want == 'Less'):
                return f'magnitudes differ beyond rounding (exact order {want}) but < is {d["lt_ab"]}, <= is {d["le_ab"]}'
        if d['ui'] == d['vi']:
            if t(d['eq_ab']) != (a == b) or t(d['lt_ab']) != (a < b) or t(d['le_ab']) != (a <= b):
                return 'same unit: comparison differs from the amount type\'s own'
    if prop == 'C01':
        if not t(d['conv_unit_ok']):
            return 'convert() result does not carry the requested unit'
        if d['conv'] != d['equiv']:
            return 'equiv_amount() differs from the amount convert() stores'
        if d['ui'] == d['vi'] and d['conv'] != d['a']:
            return 'converting to the same unit changed the amount'
        c = unbits(d['conv'])
        if math.isfinite(c) and A != 0 and abs(c) > 1e-290 and abs(a) > 1e-290:
            if abs(Fraction(c) * Fraction(sv) - A) > 6 * U * abs(A):
                return f'converted magnitude {float(Fraction(c) * Fraction(sv))!r} differs from original {float(A)!r} beyond rounding'
    if prop == 'C03':
        if not t(d['add_unit_ok']) or not t(d['sub_unit_ok']):
            return 'sum / difference is not in the left operand\'s unit'
        s, df, q = unbits(d['add']), unbits(d['sub']), unbits(d['div'])
        if d['ui'] == d['vi']:
            if bits(a + b) != d['add'] or bits(a - b) != d['sub'] or (b != 0 and bits(a / b) != d['div']):
                return 'same unit: result differs from the amount type\'s own +, -, /'
        tol = 8 * U * (abs(A) + abs(B))
        if math.isfinite(s) and abs(Fraction(s) * Fraction(su) - (A + B)) > tol:
            return f'sum magnitude {float(Fraction(s) * Fraction(su))!r} differs from exact {float(A + B)!r} beyond rounding'
        if math.isfinite(df) and abs(Fraction(df) * Fraction(su) - (A - B)) > tol:
            return f'difference magnitude {float(Fraction(df) * Fraction(su))!r} differs from exact {float(A - B)!r} beyond rounding'
        if B != 0 and math.isfinite(q) and abs(Fraction(q) - A / B) > 8 * U * abs(A / B):
            return f'ratio {q!r} differs from exact {float(A / B)!r} beyond rounding'
    return None


BATTERY = [1.0, 12.0, 3.0, 0.1, 7.0, 25.4, 1000.0, -5.0, 0.0, 2.5e10, 1.0 / 3.0, 36.0, 1e-3, 60.0, 0.3]


def jobs_for(exe, types, seed):
    rnd = random.Random(seed)
    rc, out, err, _ = run([exe, 'units', 'ALL'])
    scales = {}
    for line in out.split('\n'):
        f = line.split()
        if len(f) >= 4:
            scales.setdefault(f[0], []).append(unbits(f[3]))
    jobs = []
    for T in types:
        sc = scales.get(T, [])
        for ui in range(len(sc)):
            for vi in range(len(sc)):
                amts = BATTERY + [rnd.uniform(-100, 100), float(rnd.randint(1, 50))]
                for a in amts:
                    bs = {1.0, a}
                    if sc[vi] != 0:
                        c = a * sc[ui] / sc[vi]          # equal by construction (up to rounding)
                        c2 = (sc[ui] / sc[vi]) * a
                        for x in (c, c2):
                            if math.isfinite(x):
                                bs.update({x, nextafter(x, math.inf), nextafter(x, -math.inf)})
                    for b in bs:
                        jobs.append(f'one {T} {ui} {bits(a)} {vi} {bits(b)}')
    return jobs


def c07_replay(failure):
    """the failing 'input' of a C07 table obligation is the unit itself: read its scale from the
    real compiled code and compare with the independent definition, exactly"""
    import re
    import spec_tables as ST
    m = re.match(r'c07_(q|astro)_(f64|dec):lemma_C07_scale_(\w+?)_(\w+)$', failure.get('obligation', ''))
    note = next((d for d in [failure.get('note')] if d), None)
    if not m:
        return None
    crate = 'quantities' if m.group(1) == 'q' else 'astro'
    cfg, X, variant = m.group(2), m.group(3), m.group(4)
    exe = build(cfg)
    tname = X if crate == 'quantities' else 'astro::' + X
    rc, out, err, _ = run([exe, 'units', tname])
    tab = ST.Table(crate)
    for line in out.split('\n'):
        f = line.split()
        if len(f) < 4:
            continue
        ident = f[2]
        if ident.replace('_', '').lower() != variant.lower():
            continue
        if ident not in tab.units(X):
            return None
        lo, hi = tab.interval(X, ident)
        val = Fraction(unbits(f[3])) if cfg == 'f64' else Fraction(f[3])
        if cfg == 'f64':
            ok = lo * (1 - 2 * U) <= val <= hi * (1 + 2 * U)
            tol = 'one ulp (2^-52 relative)'
        else:
            ok = abs(val - lo) <= Fraction(5, 10 ** 19) if lo == hi else (lo - Fraction(5, 10 ** 19) <= val <= hi + Fraction(5, 10 ** 19))
            tol = '5e-19 absolute (18 fractional digits)'
        if not ok:
            return {'config': cfg, 'crate': crate, 'type': X, 'unit': ident, 'scale_returned_by_real_code': f[3],
                    'scale_exact': str(val), 'definition': tab.units(X)[ident].get('def'), 'definition_value': str(lo) if lo == hi else [str(lo), str(hi)],
                    'relative_error': float(abs(val - lo) / lo), 'tolerance': tol,
                    'what_fails': f'{X}::{ident}.scale() = {float(val)!r} differs from its definition {float(lo)!r} by more than {tol}',
                    'cmd': f'{exe} units {tname}'}
    return None


def search(prop, failure, seed, types=None, limit=None):
    if prop == 'C07':
        return c07_replay(failure)
    if prop not in ('C01', 'C02', 'C03'):
        return None
    exe = build('f64')
    jobs = jobs_for(exe, types or TYPES, seed)
    if limit:
        jobs = jobs[:limit]
    rc, out, err, _ = run([exe, '-'], stdin='\n'.join(jobs) + '\n', timeout=900)
    n = 0
    for line in out.split('\n'):
        if not line.strip():
            continue
        d = parse_line(line)
        n += 1
        why = judge(prop, d)
        if why:
            a, b = unbits(d['a']), unbits(d['b'])
            return {
                'config': 'f64', 'type': d['type'], 'unit_a_index': d['ui'], 'amount_a': a, 'amount_a_bits': d['a'],
                'unit_b_index': d['vi'], 'amount_b': b, 'amount_b_bits': d['b'], 'observed': line, 'what_fails': why,
                'cmd': f'{exe} one {d["type"]} {d["ui"]} {d["a"]} {d["vi"]} {d["b"]}', 'inputs_tried_before': n,
            }
    return None


def known_still_fails(kf):
    inp = kf.get('input')
    if not inp:
        return True
    exe = build(inp.get('config', 'f64'))
    rc, out, err, _ = run([exe, 'one', inp['type'], str(inp['unit_a_index']), inp['amount_a_bits'], str(inp['unit_b_index']), inp['amount_b_bits']])
    if rc != 0 or not out.strip():
        return False
    return judge(kf['property'], parse_line(out.strip().split('\n')[0])) is not None


if __name__ == '__main__':
    print(search(sys.argv[1], {}, 0))
