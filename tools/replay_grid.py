"""Search for a concrete failing input of a property on the REAL code (replay binary linked
against /repo) and judge it with exact rationals.  Best effort; never decides a check."""
import math
import os
import random
import struct
import sys
from fractions import Fraction

sys.path.insert(0, os.path.dirname(os.path.abspath(__file__)))
from common import run, VERIF, BUILD

U = Fraction(1, 2 ** 53)
TYPES = ['Length', 'Mass', 'Duration', 'Area', 'Volume', 'Speed', 'Acceleration', 'Force', 'Energy', 'Power',
         'Frequency', 'DataVolume', 'DataThroughput']


def gen_derived():
    """derived.rs for the replay binary: one arm per declared derivation form (from the current declarations)"""
    import decls
    import units as U
    dm = decls.catalogue()
    d = os.path.join(BUILD, 'replay-gen')
    os.makedirs(d, exist_ok=True)
    arms = ''
    path = lambda n: 'AmountT' if n == 'AmountT' else f'quantities::{dm[n].module}::{n}'
    for a, op, b, r in U.derived_forms(dm):
        sym = '*' if op == 'Mul' else '/'

        def mk(n, nm, am, ix):
            if n == 'AmountT':
                return f'let {nm}: AmountT = {am};'
            return f'let {nm} = {path(n)}::new({am}, units::<{path(n)}>()[{ix}]);'

        def sc(n, nm):
            return 'AMNT_ONE' if n == 'AmountT' else f'{nm}.unit().scale()'
        if r == 'AmountT':
            res = 'let (ru, rs, ra) = (0usize, AMNT_ONE, r);'
            same = 'let same = show(r) == show(&p {S} q) && show(r) == show(p {S} &q) && show(r) == show(&p {S} &q);'.replace('{S}', sym)
        else:
            res = f'let ru = units::<{path(r)}>().iter().position(|w| *w == r.unit()).unwrap(); let (rs, ra) = (r.unit().scale(), r.amount());'
            same = ('let f = |x: ' + path(r) + '| (x.unit(), show(x.amount())); let same = f(r) == f(&p {S} q) && f(r) == f(p {S} &q) && f(r) == f(&p {S} &q);').replace('{S}', sym)
        arms += (f'        "{a}{sym}{b}" => {{ {mk(a, "p", "x", "ui")} {mk(b, "q", "y", "vi")} let r = p {sym} q; {res} {same}\n'
                 f'            println!("derived {a}{sym}{b} {r} {{}} {{}} {{}} {{}} sa={{}} sb={{}} ru={{}} rs={{}} ra={{}} forms_same={{}}", ui, show(x), vi, show(y), show({sc(a, "p")}), show({sc(b, "q")}), ru, show(rs), show(ra), same); }}\n')
    text = ('// GENERATED from the current declarations by tools/replay_grid.py\nuse quantities::AMNT_ONE;\n'
            'fn derived(name: &str, args: &[String]) {\n    let (ui, x, vi, y): (usize, AmountT, usize, AmountT) = (args[0].parse().unwrap(), parse_amnt(&args[1]), args[2].parse().unwrap(), parse_amnt(&args[3]));\n'
            '    match name {\n' + arms + '        other => panic!("unknown derivation {}", other),\n    }\n}\n')
    p = os.path.join(d, 'derived.rs')
    if not os.path.exists(p) or open(p).read() != text:
        open(p, 'w').write(text)
    return d


def build(cfg='f64'):
    gen = gen_derived()
    tgt = os.path.join(BUILD, f'replay-{cfg}')
    cmd = ['cargo', 'build', '--release', '--offline', '--target-dir', tgt]
    cmd += ['--features', 'dec' if cfg == 'dec' else 'astro']
    rc, out, err, _ = run(cmd, cwd=os.path.join(VERIF, 'replay'), timeout=900, env={'QREPLAY_GEN': gen})
    if rc != 0:
        raise RuntimeError('replay crate does not build: ' + err[-1500:])
    return os.path.join(tgt, 'release', 'qreplay')


def bits(x):
    return '0x%016x' % struct.unpack('<Q', struct.pack('<d', x))[0]


def unbits(s):
    return struct.unpack('<d', struct.pack('<Q', int(s, 16)))[0]


def nextafter(x, d):
    return math.nextafter(x, d)


def parse_line(line):
    f = line.split()
    d = {'type': f[0], 'ui': int(f[1]), 'a': f[2], 'vi': int(f[3]), 'b': f[4]}
    for kv in f[5:]:
        k, v = kv.split('=', 1)
        d[k] = v
    return d


REV = {'Less': 'Greater', 'Greater': 'Less', 'Equal': 'Equal', 'None': 'None'}


def judge(prop, d):
    """returns a description of what fails for this observation, or None"""
    a, b = unbits(d['a']), unbits(d['b'])
    su, sv = unbits(d['su']), unbits(d['sv'])
    if any(math.isnan(x) or math.isinf(x) or (x != 0 and abs(x) < 1e-290) for x in (a, b)):
        return None
    A, B = Fraction(a) * Fraction(su), Fraction(b) * Fraction(sv)
    t = lambda s: s == 'true'
    if prop == 'C02':
        if t(d['eq_ab']) != t(d['eq_ba']):
            return f'a == b is {d["eq_ab"]} but b == a is {d["eq_ba"]}'
        if t(d['lt_ab']) != t(d['gt_ba']) or t(d['gt_ab']) != t(d['lt_ba']):
            return f'a < b is {d["lt_ab"]} but b > a is {d["gt_ba"]} (a > b {d["gt_ab"]}, b < a {d["lt_ba"]})'
        if d['cmp_ab'] != REV[d['cmp_ba']]:
            return f'partial_cmp(a,b)={d["cmp_ab"]} but partial_cmp(b,a)={d["cmp_ba"]}'
        if (d['cmp_ab'] == 'Equal') != t(d['eq_ab']):
            return f'partial_cmp(a,b)={d["cmp_ab"]} but a == b is {d["eq_ab"]}'
        if t(d['ne_ab']) == t(d['eq_ab']):
            return 'a != b is not the negation of a == b'
        tol = 8 * U * max(abs(A), abs(B))
        if abs(A - B) > tol:
            want = 'Less' if A < B else 'Greater'
            if t(d['eq_ab']) or d['cmp_ab'] != want:
                return f'magnitudes differ beyond rounding (exact order {want}) but == is {d["eq_ab"]}, partial_cmp {d["cmp_ab"]}'
            if t(d['lt_ab']) != (want == 'Less') or t(d['le_ab']) != (want == 'Less'):
                return f'magnitudes differ beyond rounding (exact order {want}) but < is {d["lt_ab"]}, <= is {d["le_ab"]}'
        if d['ui'] == d['vi']:
            if t(d['eq_ab']) != (a == b) or t(d['lt_ab']) != (a < b) or t(d['le_ab']) != (a <= b):
                return 'same unit: comparison differs from the amount type\'s own'
    if prop == 'C01':
        if not t(d['conv_unit_ok']):
            return 'convert() result does not carry the requested unit'
        if d['conv'] != d['equiv']:
            return 'equiv_amount() differs from the amount convert() stores'
        if d['ui'] == d['vi'] and d['conv'] != d['a']:
            return 'converting to the same unit changed the amount'
        c = unbits(d['conv'])
        if math.isfinite(c) and A != 0 and abs(c) > 1e-290 and abs(a) > 1e-290:
            if abs(Fraction(c) * Fraction(sv) - A) > 6 * U * abs(A):
                return f'converted magnitude {float(Fraction(c) * Fraction(sv))!r} differs from original {float(A)!r} beyond rounding'
    if prop == 'C03':
        if not t(d['add_unit_ok']) or not t(d['sub_unit_ok']):
            return 'sum / difference is not in the left operand\'s unit'
        s, df, q = unbits(d['add']), unbits(d['sub']), unbits(d['div'])
        if d['ui'] == d['vi']:
            if bits(a + b) != d['add'] or bits(a - b) != d['sub'] or (b != 0 and bits(a / b) != d['div']):
                return 'same unit: result differs from the amount type\'s own +, -, /'
        tol = 8 * U * (abs(A) + abs(B))
        if math.isfinite(s) and abs(Fraction(s) * Fraction(su) - (A + B)) > tol:
            return f'sum magnitude {float(Fraction(s) * Fraction(su))!r} differs from exact {float(A + B)!r} beyond rounding'
        if math.isfinite(df) and abs(Fraction(df) * Fraction(su) - (A - B)) > tol:
            return f'difference magnitude {float(Fraction(df) * Fraction(su))!r} differs from exact {float(A - B)!r} beyond rounding'
        if B != 0 and math.isfinite(q) and abs(Fraction(q) - A / B) > 8 * U * abs(A / B):
            return f'ratio {q!r} differs from exact {float(A / B)!r} beyond rounding'
    return None


BATTERY = [1.0, 12.0, 3.0, 0.1, 7.0, 25.4, 1000.0, -5.0, 0.0, 2.5e10, 1.0 / 3.0, 36.0, 1e-3, 60.0, 0.3]


def jobs_for(exe, types, seed):
    rnd = random.Random(seed)
    rc, out, err, _ = run([exe, 'units', 'ALL'])
    scales = {}
    for line in out.split('\n'):
        f = line.split()
        if len(f) >= 4:
            scales.setdefault(f[0], []).append(unbits(f[3]))
    jobs = []
    for T in types:
        sc = scales.get(T, [])
        for ui in range(len(sc)):
            for vi in range(len(sc)):
                amts = BATTERY + [rnd.uniform(-100, 100), float(rnd.randint(1, 50))]
                for a in amts:
                    bs = {1.0, a}
                    if sc[vi] != 0:
                        c = a * sc[ui] / sc[vi]          # equal by construction (up to rounding)
                        c2 = (sc[ui] / sc[vi]) * a
                        for x in (c, c2):
                            if math.isfinite(x):
                                bs.update({x, nextafter(x, math.inf), nextafter(x, -math.inf)})
                    for b in bs:
                        jobs.append(f'one {T} {ui} {bits(a)} {vi} {bits(b)}')
    return jobs


def c07_replay(failure):
    """the failing 'input' of a C07 table obligation is the unit itself: read its scale from the
    real compiled code and compare with the independent definition, exactly"""
    import re
    import spec_tables as ST
    m = re.match(r'c07_(q|astro)_(f64|dec):lemma_C07_scale_(\w+?)_(\w+)$', failure.get('obligation', ''))
    note = next((d for d in [failure.get('note')] if d), None)
    if not m:
        return None
    crate = 'quantities' if m.group(1) == 'q' else 'astro'
    cfg, X, variant = m.group(2), m.group(3), m.group(4)
    exe = build(cfg)
    tname = X if crate == 'quantities' else 'astro::' + X
    rc, out, err, _ = run([exe, 'units', tname])
    tab = ST.Table(crate)
    for line in out.split('\n'):
        f = line.split()
        if len(f) < 4:
            continue
        ident = f[2]
        if ident.replace('_', '').lower() != variant.lower():
            continue
        if ident not in tab.units(X):
            return None
        lo, hi = tab.interval(X, ident)
        val = Fraction(unbits(f[3])) if cfg == 'f64' else Fraction(f[3])
        if cfg == 'f64':
            ok = lo * (1 - 2 * U) <= val <= hi * (1 + 2 * U)
            tol = 'one ulp (2^-52 relative)'
        else:
            ok = abs(val - lo) <= Fraction(5, 10 ** 19) if lo == hi else (lo - Fraction(5, 10 ** 19) <= val <= hi + Fraction(5, 10 ** 19))
            tol = '5e-19 absolute (18 fractional digits)'
        if not ok:
            return {'config': cfg, 'crate': crate, 'type': X, 'unit': ident, 'scale_returned_by_real_code': f[3],
                    'scale_exact': str(val), 'definition': tab.units(X)[ident].get('def'), 'definition_value': str(lo) if lo == hi else [str(lo), str(hi)],
                    'relative_error': float(abs(val - lo) / lo), 'tolerance': tol,
                    'what_fails': f'{X}::{ident}.scale() = {float(val)!r} differs from its definition {float(lo)!r} by more than {tol}',
                    'cmd': f'{exe} units {tname}'}
    return None


def search(prop, failure, seed, types=None, limit=None):
    if prop == 'C07':
        return c07_replay(failure)
    if prop in ('C04', 'C05', 'C08', 'C10', 'C13'):
        return search_ops(prop, failure, seed)
    if prop not in ('C01', 'C02', 'C03'):
        return None
    exe = build('f64')
    jobs = jobs_for(exe, types or TYPES, seed)
    if limit:
        jobs = jobs[:limit]
    rc, out, err, _ = run([exe, '-'], stdin='\n'.join(jobs) + '\n', timeout=900)
    n = 0
    for line in out.split('\n'):
        if not line.strip():
            continue
        d = parse_line(line)
        n += 1
        why = judge(prop, d)
        if why:
            a, b = unbits(d['a']), unbits(d['b'])
            return {
                'config': 'f64', 'type': d['type'], 'unit_a_index': d['ui'], 'amount_a': a, 'amount_a_bits': d['a'],
                'unit_b_index': d['vi'], 'amount_b': b, 'amount_b_bits': d['b'], 'observed': line, 'what_fails': why,
                'cmd': f'{exe} one {d["type"]} {d["ui"]} {d["a"]} {d["vi"]} {d["b"]}', 'inputs_tried_before': n,
            }
    return None


def known_still_fails(kf):
    inp = kf.get('input')
    if not inp:
        return True
    exe = build(inp.get('config', 'f64'))
    if inp.get('mode') == 'derived_panics':
        # the recorded operands still make the real code panic (the process dies with the panic message)
        rc, out, err, _ = run([exe, 'derived', inp['form']] + [str(x) for x in inp['args']])
        return rc != 0 and 'panicked' in err and inp.get('expect_stderr', '') in err
    rc, out, err, _ = run([exe, 'one', inp['type'], str(inp['unit_a_index']), inp['amount_a_bits'], str(inp['unit_b_index']), inp['amount_b_bits']])
    if rc != 0 or not out.strip():
        return False
    return judge(kf['property'], parse_line(out.strip().split('\n')[0])) is not None


# ---------------- derived / scalar / rate / no-reference-unit replays (f64) ----------------
def kv(line):
    f = line.split()
    d = {'_': f}
    for x in f:
        if '=' in x:
            k, v = x.split('=', 1)
            d[k] = v
    return d


def unit_tables(exe, names):
    rc, out, err, _ = run([exe, '-'], stdin=''.join(f'units {n}\n' for n in names))
    tabs = {}
    for line in out.split('\n'):
        f = line.split()
        if len(f) >= 6:
            tabs.setdefault(f[0], []).append({'name': f[2], 'scale': unbits(f[3]), 'si': f[-1] == 'si=true'})
    return tabs


AMTS = [3.0, 0.7, -2.5, 1.0, 1e-3, 250.0, 0.0, 12.0, 1e6]


def fdiv(a, b):
    try:
        return a / b
    except ZeroDivisionError:
        if a == 0 or a != a:
            return float('nan')
        return math.copysign(float('inf'), a) * math.copysign(1.0, b)


def judge_derived(prop, d, tabs):
    f = d['_']
    form, R = f[1], f[2]
    op = '*' if '*' in form else '/'
    a, b = unbits(f[4]), unbits(f[6])
    sa, sb, rs, ra = (unbits(d[k]) for k in ('sa', 'sb', 'rs', 'ra'))
    if d['forms_same'] != 'true':
        return 'owned and borrowed operand forms give different results'
    vals = (a, b, sa, sb, rs, ra)
    if any(math.isnan(v) or math.isinf(v) for v in vals):
        return None
    if prop == 'C04':
        if op == '/' and b == 0:
            return None
        M = (Fraction(a) * Fraction(sa)) * (Fraction(b) * Fraction(sb)) if op == '*' else (Fraction(a) * Fraction(sa)) / (Fraction(b) * Fraction(sb))
        got = Fraction(ra) * Fraction(rs)
        if abs(got - M) > 32 * U * abs(M) and abs(M) > Fraction(1, 10 ** 280):
            return f'result magnitude {float(got)!r} differs from the exact {"product" if op == "*" else "quotient"} {float(M)!r} of the operand magnitudes beyond rounding'
        return None
    # C05
    ru = int(d['ru'])
    if R == 'AmountT':
        return None
    table = tabs[R]
    sc = sa * sb if op == '*' else fdiv(sa, sb)
    amt = a * b if op == '*' else fdiv(a, b)
    if math.isnan(amt) or math.isinf(amt):
        return None
    if sa == 1.0 and sb == 1.0:
        ref = next(i for i, u in enumerate(table) if u['scale'] == 1.0)
        if ru != ref:
            return f'operands in reference units but the result unit is {table[ru]["name"]}'
    if any(u['scale'] == sc for u in table):
        if table[ru]['scale'] != sc:
            return f'a unit with the combined scale {sc!r} exists but the result uses {table[ru]["name"]}'
        if bits(ra) != bits(amt):
            return f'natural unit: amount {ra!r} is not the amount type\'s own {"product" if op == "*" else "quotient"} {amt!r}'
        return None
    x = amt * sc
    if math.isnan(x) or math.isinf(x):
        return None
    ref_si = next(u for u in table if u['scale'] == 1.0)['si']
    elig = [u for u in table if (u['si'] or not ref_si)]
    cand = [u['scale'] for u in elig if u['scale'] <= x]
    want = max(cand) if cand else min(u['scale'] for u in elig)
    if table[ru]['scale'] != want or (ref_si and not table[ru]['si']):
        return f'fitted unit {table[ru]["name"]} (scale {table[ru]["scale"]!r}) but the largest eligible unit not exceeding the magnitude {x!r} has scale {want!r}'
    return None


def judge_scalar(d):
    f = d['_']
    a, k = unbits(f[3]), unbits(f[4])
    for key in ('new_ok', 'axu_ok', 'uxa_ok', 'kxq_ok', 'qxk_ok', 'qdk_ok'):
        if d[key] != 'true':
            return f'{key[:-3]}: the unit is not preserved'
    for key in ('new', 'axu', 'uxa'):
        if d[key] != f[3]:
            return f'{key}: stored amount {unbits(d[key])!r} is not the given amount {a!r}'
    if math.isnan(a) or math.isnan(k):
        return None
    if d['kxq'] != bits(k * a) or d['qxk'] != bits(a * k):
        return f'number x value: {unbits(d["kxq"])!r} / {unbits(d["qxk"])!r} is not the amount type\'s own product {a * k!r}'
    if k != 0 and d['qdk'] != bits(a / k):
        return f'value / number: {unbits(d["qdk"])!r} is not the amount type\'s own quotient {a / k!r}'
    return None


def judge_rate(d, job, tabs):
    j = job.split()
    X = j[1]
    ti, ta, pm, pi, vi, b, mi, m = int(j[2]), unbits(j[3]), unbits(j[4]), int(j[5]), int(j[6]), unbits(j[7]), int(j[8]), unbits(j[9])
    if d['comps_ok'] != 'true' or d['ta1'] != j[3] or d['pm1'] != j[4] or d['ta2'] != j[3] or d['pm2'] != j[4]:
        return 'a rate does not report the four components it was built from'
    if d['recip_ok'] != 'true' or d['rta'] != j[4] or d['rpm'] != j[3] or d['rrta'] != j[3] or d['rrpm'] != j[4]:
        return 'reciprocal does not swap the components / applied twice does not give the original'
    if d['r1_unit_ok'] != 'true' or d['r2_unit_ok'] != 'true':
        return 'rate x value is not in the term unit'
    sx, st = [u['scale'] for u in tabs[X]], [u['scale'] for u in tabs['Mass']]
    if pm == 0 or ta == 0:
        return None
    want = Fraction(ta) * (Fraction(b) * Fraction(sx[vi]) / (Fraction(pm) * Fraction(sx[pi])))
    for key in ('r1', 'r2'):
        got = Fraction(unbits(d[key]))
        if abs(got - want) > 32 * U * abs(want):
            return f'{"rate x value" if key == "r1" else "value x rate"} = {float(got)!r}, expected term amount x (value / per value) = {float(want)!r}'
    if int(d['r3_unit']) != pi or int(d['r4_unit']) != pi:
        return 'value / rate is not in the per unit'
    want3 = Fraction(pm) * (Fraction(m) * Fraction(st[mi]) / (Fraction(ta) * Fraction(st[ti])))
    for key in ('r3', 'r4'):
        got = Fraction(unbits(d[key]))
        if abs(got - want3) > 32 * U * abs(want3):
            return f'{"value / rate" if key == "r3" else "value x reciprocal"} = {float(got)!r}, expected per amount x (value / term value) = {float(want3)!r}'
    return None


def judge_noref(d):
    f = d['_']
    ui, a, vi, b = int(f[2]), unbits(f[3]), int(f[4]), unbits(f[5])
    if ui != vi:
        if d['eq'] != 'false' or d['ne'] != 'true':
            return 'values in different units compare equal'
        if d['cmp'] != 'None' or 'true' in (d['lt'], d['le'], d['gt'], d['ge']):
            return 'values in different units are ordered'
        for op in ('add', 'sub', 'div'):
            if d[op] != 'panic':
                return f'{op} of values in different units returned {d[op]} instead of panicking'
        return None
    if (d['eq'] == 'true') != (a == b):
        return 'same unit: == differs from the amounts\' =='
    want = {'add': f'{ui}:{bits(a + b)}', 'sub': f'{ui}:{bits(a - b)}'}
    for op in ('add', 'sub'):
        if d[op] != want[op]:
            return f'same unit: {op} gives {d[op]}, expected {want[op]}'
    if b != 0 and d['div'] != bits(a / b):
        return 'same unit: / differs from the amounts\' /'
    return None


def search_ops(prop, failure, seed):
    import decls
    import units as UN
    exe = build('f64')
    dm = decls.catalogue()
    names = [n for n in dm]
    tabs = unit_tables(exe, [n for n in names if dm[n].ref is not None])
    rnd = random.Random(seed)
    jobs = []
    if prop in ('C04', 'C05'):
        for a, op, b, r in UN.derived_forms(dm):
            na = len(dm[a].units) if a != 'AmountT' else 1
            nb = len(dm[b].units) if b != 'AmountT' else 1
            sym = '*' if op == 'Mul' else '/'
            for ui in range(na):
                for vi in range(nb):
                    amts = [(3.0, 0.7), (-2.5, 4.0), (1.0, 1.0), (250.0, 1e-3), (rnd.uniform(0.1, 50), rnd.uniform(0.1, 50))]
                    if prop == 'C05' and r != 'AmountT':
                        # magnitudes exactly on a unit boundary of the result type
                        for u in tabs[r][:6]:
                            amts.append((u['scale'], 1.0))
                    for x, y in amts:
                        jobs.append(f'derived {a}{sym}{b} {ui} {bits(x)} {vi} {bits(y)}')
    elif prop == 'C08':
        for n in names:
            for ui in range(len(dm[n].units)):
                for a in AMTS + [-0.0, float('inf'), 5.0, 49.0, 1e-300]:
                    for k in (3.0, 0.1, -7.0, 1.0, 10.0, 49.0, 1e-310, -1.0, 0.0):
                        jobs.append(f'scalar {n} {ui} {bits(a)} {bits(k)}')
    elif prop == 'C13':
        nt = len(dm['Mass'].units)
        for n in names:
            if dm[n].ref is None:
                continue
            nx = len(dm[n].units)
            for _ in range(60):
                ti, pi, vi, mi = rnd.randrange(nt), rnd.randrange(nx), rnd.randrange(nx), rnd.randrange(nt)
                if rnd.random() < 0.4:
                    vi = pi
                ta = rnd.choice([1.0, 30.0, 2.5, 7.0])
                pm = rnd.choice([1.0, 4.0, 100.0, 0.5])
                # coincidences between the value's amount and the rate's components are a class of their own
                # (shortcuts that compare amounts and forget the units): a third of the jobs have them
                v = pm if rnd.random() < 0.33 else rnd.choice([8.0, 3.0, 0.25, 12.5])
                mv = ta if rnd.random() < 0.33 else rnd.choice([6.0, 1.5, 40.0])
                jobs.append(f'rate {n} {ti} {bits(ta)} {bits(pm)} {pi} {vi} {bits(v)} {mi} {bits(mv)}')
    elif prop == 'C10':
        n = len(dm['Temperature'].units)
        for ui in range(n):
            for vi in range(n):
                for a in (3.0, 0.0, -0.0, -2.0, 17.5, float('nan')):
                    for b in (5.0, 0.0, 3.0, -2.0):
                        jobs.append(f'noref Temperature {ui} {bits(a)} {vi} {bits(b)}')
    else:
        return None
    rc, out, err, _ = run([exe, '-'], stdin='\n'.join(jobs) + '\n', timeout=900)
    lines = [l for l in out.split('\n') if l.strip()]
    for idx, line in enumerate(lines):
        d = kv(line)
        kind = d['_'][0]
        if kind == 'derived':
            why = judge_derived(prop, d, tabs)
        elif kind == 'scalar':
            why = judge_scalar(d)
        elif kind == 'rate':
            why = judge_rate(d, jobs[idx], tabs) if idx < len(jobs) else None
        elif kind == 'noref':
            why = judge_noref(d)
        else:
            why = None
        if why:
            job = jobs[idx] if idx < len(jobs) else ''
            return {'config': 'f64', 'job': job, 'observed': line, 'what_fails': why, 'cmd': f'{exe} {job}', 'inputs_tried_before': idx,
                    'note': 'amounts are binary64 bit patterns; unit arguments are indices into the type\'s iteration order'}
    return None


if __name__ == '__main__':
    print(search(sys.argv[1], {}, 0))


