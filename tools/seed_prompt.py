#!/usr/bin/env python3
"""Prints the prompt for one seeding sub-agent: seed_prompt.py <worktree> <property id> <focus text file or '-'>
(only the property text and a scratch worktree are given; nothing from /verif)"""
import json
import sys

wt, pid = sys.argv[1], sys.argv[2]
focus = sys.argv[3] if len(sys.argv) > 3 else ''
prop = next(json.loads(l) for l in open('/verif/properties.jsonl') if json.loads(l)['id'] == pid)
print(f'''You are helping test a verification framework by writing a realistic, subtle bug ("seeded change") for a Rust library.

Working copy: a scratch git worktree of the library `quantities` (mamrhein/quantities.rs, a units-of-measure crate: proc macro `#[quantity]` in `qty-macros/src/quantity_attr_helper.rs` generates quantity/unit types, tables, constants and operators; generic logic in `src/lib.rs` (traits Unit, LinearScaledUnit, Quantity, HasRefUnit; unit-less `One`/`AmountT`), `src/rate.rs`, `src/converter.rs`, `src/si_prefixes.rs`; catalogue modules `src/length.rs`, `src/mass.rs`, ... `src/temperature.rs`; a second crate in `astronimical_quantities/`) at: {wt}
Work ONLY inside {wt}. Do not read or touch /verif or /repo or any other /tmp/wt* directory. No network; use `--offline` with cargo (and `CARGO_NET_OFFLINE=true`). Never use `git stash`; to test the unchanged tree use `git apply -R mutant.diff` and re-apply with `git apply mutant.diff`.

The property to break (this is all you get; read the code to find where it is implemented):

"{prop['title']}: {prop['statement']}"

{focus}

Requirements: ONE small source change (in `src/`, `qty-macros/src/` or `astronimical_quantities/src/`) that
 (1) compiles, also with `--features doc` and `--features "doc fpdec"`;
 (2) still passes the DEFAULT-FEATURE workspace suite `cd {wt} && cargo test --workspace --no-fail-fast --offline` (the test `macro_attr_tests::ui` fails already on the unchanged tree - ignore it; everything else must pass). The catalogue modules are feature-gated, their own `#[cfg(test)]` tests are not part of that suite;
 (3) breaks the property for some inputs;
 (4) needs something specific to manifest - an unusual input, a particular unit pair or type, a particular operand form, a multi-step sequence, or two cooperating sites that each look fine alone - NOT something ordinary use would expose at once. It should read like a plausible slip or "improvement".

Demonstration: {wt}/tests/seeded_demo.rs (integration test using the public API; you may declare your own `#[quantity]` types in it; run with `cargo test --offline --features doc --test seeded_demo`; gate it with `#![cfg(feature = "...")]` if it needs catalogue modules so that the default suite still compiles) that FAILS with the change and PASSES without it - verify both.

Deliverables in {wt}: the change applied + `git diff -- src qty-macros astronimical_quantities > mutant.diff` (without the demo); tests/seeded_demo.rs; NOTES.md (what changed, why it breaks the property, what is needed to manifest, commands run and results). Do not commit. Report a short summary.''')
