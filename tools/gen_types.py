"""Per-type Verus units generated from `rustc -Zunpretty=expanded` output of the current tree.

Every `#[quantity]` expansion is cut into its items; each item is classified by its header,
re-emitted verbatim (bodies are slices of the expansion) together with the ghost text that
states its contract (spec functions, *SpecImpl blocks).  Rewrites applied: R1 (as_qty call),
R5 (pub fields, derives), R6 (literals -> named constants).  Anything whose shape is not
recognised is a lost anchor (exit 2).
"""
import os
import re
import sys
from fractions import Fraction

sys.path.insert(0, os.path.dirname(os.path.abspath(__file__)))
import rsparse
from rsparse import norm_tokens
from gen_verus import LostAnchor, rewrite_as_qty_calls, kept_attrs

OPS = {'Add': ('add', 'a_add'), 'Sub': ('sub', 'a_sub'), 'Mul': ('mul', 'a_mul'), 'Div': ('div', 'a_div')}


def lit_name(fr):
    s = f'{abs(fr.numerator)}_{fr.denominator}'
    return ('m' if fr < 0 else '') + s


class Literals:
    def __init__(self):
        self.seen = {}

    def use(self, fr):
        n = lit_name(fr)
        self.seen[n] = fr
        return n

    def decls(self):
        out = ['// R6: literals of the expansion as named constants; the name carries the exact rational value written in the source']
        for n, fr in sorted(self.seen.items(), key=lambda kv: kv[1]):
            if fr == 1:
                out.append(f'pub open spec fn lit_{n}() -> AmountT {{ AMNT_ONE }}')
            else:
                out.append(f'pub uninterp spec fn lit_{n}() -> AmountT;')
            out.append(f'#[verifier::external_body]\nfn amnt_lit_{n}() -> (r: AmountT) ensures r == lit_{n}() {{ unimplemented!() }}')
        return '\n'.join(out)


def parse_literal(toks):
    """tokens of one amount literal expression -> Fraction, or None"""
    txt = [t.text for t in toks]
    neg = False
    if txt and txt[0] == '-':
        neg = True
        txt = txt[1:]
        toks = toks[1:]
    if len(txt) == 3 and toks[0].kind == 'num' and txt[1] == 'as' and txt[2] in ('f64', 'f32'):
        s = txt[0].replace('_', '')
        s = re.sub(r'(f64|f32)$', '', s)
        if s.endswith('.'):
            s += '0'
        try:
            fr = Fraction(s)
        except ValueError:
            return None
        return -fr if neg else fr
    # Decimal::new_raw(<int>i128, <n>u8)
    if txt[:4] == ['Decimal', '::', 'new_raw', '('] and txt[-1] == ')':
        inner = txt[4:-1]
        sign = 1
        if inner and inner[0] == '-':
            sign = -1
            inner = inner[1:]
        if len(inner) == 3 and inner[1] == ',':
            m1 = re.fullmatch(r'([0-9_]+)(i128)?', inner[0])
            m2 = re.fullmatch(r'([0-9_]+)(u8)?', inner[2])
            if m1 and m2:
                fr = Fraction(sign * int(m1.group(1).replace('_', '')), 10 ** int(m2.group(1)))
                return -fr if neg else fr
    return None


def find_literals(toks, lo, hi):
    """amount literals in toks[lo:hi]: [(first_tok_index, last_tok_index, Fraction)]"""
    out = []
    i = lo
    while i < hi:
        t = toks[i]
        # source form: Amnt!( [-] LIT )
        if t.text == 'Amnt' and i + 2 < hi and toks[i + 1].text == '!' and toks[i + 2].text == '(':
            c = rsparse.match_close(toks, i + 2)
            inner = toks[i + 3:c]
            neg = bool(inner) and inner[0].text == '-'
            if neg:
                inner = inner[1:]
            if len(inner) == 1 and inner[0].kind == 'num':
                try:
                    s_ = re.sub(r'(f64|f32|u\d+|i\d+|usize|isize)$', '', inner[0].text.replace('_', ''))
                    fr = Fraction(s_ + '0' if s_.endswith('.') else s_)
                    out.append((i, c, -fr if neg else fr))
                    i = c + 1
                    continue
                except ValueError:
                    pass
        # expanded f64 form: LIT as f64
        if t.kind == 'num' and i + 2 < hi and toks[i + 1].text == 'as' and toks[i + 2].text in ('f64', 'f32'):
            fr = parse_literal(toks[i:i + 3])
            if fr is not None:
                out.append((i, i + 2, fr))
                i += 3
                continue
        # expanded decimal form: Decimal::new_raw(c, n)
        if t.text == 'Decimal' and i + 3 < hi and toks[i + 1].text == '::' and toks[i + 2].text == 'new_raw' and toks[i + 3].text == '(':
            c = rsparse.match_close(toks, i + 3)
            fr = parse_literal(toks[i:c + 1])
            if fr is not None:
                out.append((i, c, fr))
                i = c + 1
                continue
        i += 1
    return out


def rewrite_literals(item, lits, text=None):
    """R6 on one fn item: returns the item's text (from the fn keyword on) with every amount literal
    of its body replaced by its named constant."""
    base = item.start
    text = item.text() if text is None else text
    if item.body_open is None:
        return text
    found = find_literals(item.toks, item.body_open, item.body_close)
    for a, b, fr in sorted(found, key=lambda x: -x[0]):
        n = lits.use(fr)
        text = text[:item.toks[a].start - base] + f'amnt_lit_{n}()' + text[item.toks[b].end - base:]
    return text


def real_of(fr):
    if fr.denominator == 1:
        return f'({fr.numerator}real)' if fr >= 0 else f'(-{abs(fr.numerator)}real)'
    s = f'({abs(fr.numerator)}real / {fr.denominator}real)'
    return s if fr >= 0 else f'(-{s})'


def parse_impl_header(item):
    """{'generics', 'trait' (None for inherent impls), 'args' [normalised strings], 'self_ty', 'where'} of an impl item;
    lifetimes are stripped (an elided and an explicit lifetime denote the same impl)"""
    toks = item.toks[item.first:item.body_open]
    i = 0
    while i < len(toks) and toks[i].text != 'impl':
        i += 1
    if i >= len(toks):
        return None
    i += 1
    gens = []
    if i < len(toks) and toks[i].text == '<':
        e = rsparse.skip_generics(toks, i)
        gens = toks[i + 1:e - 1]
        i = e
    rest = toks[i:]
    # split off the where clause
    w = next((k for k, t in enumerate(rest) if t.kind == 'ident' and t.text == 'where'), len(rest))
    where = rest[w + 1:]
    rest = rest[:w]
    # find the top-level `for`
    depth, f = 0, None
    for k, t in enumerate(rest):
        if t.text == '<':
            depth += 1
        elif t.text == '>':
            depth -= 1
        elif t.kind == 'ident' and t.text == 'for' and depth == 0:
            f = k
            break

    def norm(ts):
        return ''.join(t.text for t in ts if t.kind != 'lifetime')
    if f is None:
        return {'generics': norm(gens), 'trait': None, 'args': [], 'self_ty': norm(rest), 'where': norm(where)}
    tr, st = rest[:f], rest[f + 1:]
    # trait path and its generic arguments
    a = next((k for k, t in enumerate(tr) if t.text == '<'), None)
    args = []
    if a is not None:
        inner = tr[a + 1:len(tr) - 1]
        depth, cur = 0, []
        for t in inner:
            if t.text == '<':
                depth += 1
            elif t.text == '>':
                depth -= 1
            if t.text == ',' and depth == 0:
                args.append(norm(cur))
                cur = []
            else:
                cur.append(t)
        if cur:
            args.append(norm(cur))
        tr = tr[:a]
    return {'generics': norm(gens), 'trait': norm(tr).lstrip(':'), 'args': args, 'self_ty': norm(st), 'where': norm(where)}


class QType:
    def __init__(self, name):
        self.name = name
        self.unit_enum = None
        self.variants = []
        self.single = False
        self.has_ref = False
        self.ref_variant = None
        self.scale = {}     # variant -> Fraction
        self.module = None
        self.struct_item = None


class TypesGen:
    def __init__(self, exp_text, exp_label, unit_name, modules=None, crate_root=False):
        self.src = exp_text
        self.label = exp_label       # e.g. 'expanded:quantities[doc]'
        self.unit = unit_name
        self.items, self.toks = rsparse.parse_file(exp_text)
        self.lits = Literals()
        self.types = {}
        self.out_ref = []
        self.out_noref = []
        self.records = []
        self.derived = []     # (A, op, B, R)
        self.conv_tables = []
        self.amnt_consts = {}     # name -> exact value of module-level `const NAME: AmountT = <literal>`
        self.modules = modules
        self.crate_root = crate_root

    # ---------- helpers ----------
    def marker(self, ob, props, item, kind='exec', note=None):
        l0, l1 = item.line_span()
        s = f'//@ob id={self.unit}:{ob} props={",".join(props)} kind={kind} src={self.label}:{l0}-{l1} sha={item.body_sha()[:16]}'
        if note:
            s += f' note={note}'
        self.records.append({'obligation': f'{self.unit}:{ob}', 'function': ob, 'file': self.label, 'lines': [l0, l1],
                             'sha256_body': item.body_sha(), 'props': props, 'rewrites': [note] if note else []})
        return s

    def fn_text(self, item, indent='    '):
        attrs = ''.join(f'{indent}{a}\n' for a in kept_attrs(item))
        return attrs + indent + rewrite_literals(item, self.lits)

    def fn_children(self, impl):
        return [c for c in impl.children() if c.kw == 'fn']

    def out_type(self, impl):
        for c in impl.children():
            if c.kw == 'type' and c.name == 'Output':
                t = c.src[c.start:c.toks[c.last].start]  # without ';'
                return re.sub(r'\s+', ' ', t.split('=', 1)[1].strip())
        raise LostAnchor(f'{impl.header_norm()}: no `type Output`')

    # ---------- pass 1: discover types ----------
    def module_items(self):
        """yield (module name, items) for every module holding quantity expansions"""
        if self.crate_root:
            yield ('crate', self.items)
        for it in self.items:
            if it.kw == 'mod' and it.body_open is not None:
                ch = it.children()
                if any(c.kw == 'impl' and re.match(r'impl Quantity for \w+$', c.header_norm()) for c in ch):
                    if self.modules is None or it.name in self.modules:
                        yield (it.name, ch)

    def discover(self):
        for mod, ch in self.module_items():
            for c in ch:
                h = c.header_norm()
                m = re.match(r'impl Quantity for (\w+)$', h)
                if m and c.kw == 'impl' and m.group(1) != 'AmountT':
                    qt = QType(m.group(1))
                    qt.module = mod
                    self.types[qt.name] = qt
            for c in ch:
                if c.kw == 'struct' and c.name in self.types:
                    qt = self.types[c.name]
                    qt.struct_item = c
                    fields = self.struct_fields(c)
                    if fields == ['amount', 'unit']:
                        qt.single = False
                    elif fields == ['amount']:
                        qt.single = True
                    else:
                        raise LostAnchor(f'struct {c.name}: unexpected fields {fields}')
                if c.kw == 'enum' and c.name.endswith('Unit') and c.name[:-4] in self.types:
                    qt = self.types[c.name[:-4]]
                    qt.unit_enum = c.name
                    qt.variants = self.enum_variants(c)
                m = re.match(r'impl HasRefUnit for (\w+)$', c.header_norm()) if c.kw == 'impl' else None
                if m and m.group(1) in self.types:
                    self.types[m.group(1)].has_ref = True
        for qt in self.types.values():
            if qt.unit_enum is None or qt.struct_item is None:
                raise LostAnchor(f'type {qt.name}: struct or unit enum not found in expansion')

    def struct_fields(self, item):
        toks = item.toks[item.body_open + 1:item.body_close]
        fields = []
        depth = 0
        for i, t in enumerate(toks):
            if t.kind == 'punct' and t.text in rsparse.OPEN:
                depth += 1
            elif t.kind == 'punct' and t.text in rsparse.CLOSE:
                depth -= 1
            elif depth == 0 and t.kind == 'ident' and i + 1 < len(toks) and toks[i + 1].text == ':' and (i == 0 or toks[i - 1].text in (',', 'pub', ']')):
                fields.append(t.text)
        return fields

    def enum_variants(self, item):
        toks = item.toks[item.body_open + 1:item.body_close]
        out = []
        i = 0
        while i < len(toks):
            t = toks[i]
            if t.text == '#':
                i = rsparse.match_close(toks, i + 1) + 1
                continue
            if t.kind == 'ident':
                out.append(t.text)
                if i + 1 < len(toks) and toks[i + 1].text not in (',',):
                    raise LostAnchor(f'enum {item.name}: variant {t.text} is not field-less')
            i += 1
        return out

    # ---------- pass 2: emit ----------
    def emit_all(self):
        self.discover()
        for mod, ch in self.module_items():
            for c in ch:
                self.emit_item(mod, c)

    def sink(self, *type_names):
        """which output file an item about these types goes to"""
        for n in type_names:
            qt = self.types.get(n)
            if qt is not None and not qt.has_ref:
                return self.out_noref
        return self.out_ref

    def emit_item(self, mod, c):
        h = c.header_norm()
        attrs = c.attrs()
        if c.kw == 'use':
            return
        if '# [ automatically_derived ]' in attrs:
            return
        if c.kw == 'struct':
            if c.name in self.types:
                return self.emit_struct(self.types[c.name], c)
            raise LostAnchor(f'unexpected struct {c.name} in module {mod}')
        if c.kw == 'enum':
            if c.name.endswith('Unit') and c.name[:-4] in self.types:
                return self.emit_enum(self.types[c.name[:-4]], c)
            raise LostAnchor(f'unexpected enum {c.name} in module {mod}')
        if c.kw == 'const':
            m = re.match(r'pub const (\w+) : (\w+) = (\w+) :: (\w+)$', h)
            if m and m.group(2) == m.group(3) and m.group(2)[:-4] in self.types:
                self.sink(m.group(2)[:-4]).append(c.text() + '\n')
                return
            if 'ConversionTable' in h:
                self.conv_tables.append(c)
                return
            m = re.match(r'(?:pub (?:\( \w+ \) )?)?const (\w+) : AmountT = ', h)
            if m:
                # a named amount constant (helper of a table): remembered by value, referenced through `amnt_consts`
                eq = next(k for k in range(c.first, c.last) if c.toks[k].text == '=')
                found = find_literals(c.toks, eq + 1, c.last)
                if len(found) == 1:
                    neg = c.toks[eq + 1].text == '-'
                    self.amnt_consts[m.group(1)] = -found[0][2] if neg else found[0][2]
                    return
            raise LostAnchor(f'unexpected const in module {mod}: {h[:80]}')
        if c.kw in ('mod', 'macro_rules', 'type', 'trait', 'fn', 'extern', '?', 'static', 'union'):
            if self.crate_root:
                return
            raise LostAnchor(f'unexpected item `{h[:60]}` in module {mod}')
        if c.kw != 'impl':
            raise LostAnchor(f'unexpected item kind {c.kw} in module {mod}')
        # ---- impls ----
        hd = parse_impl_header(c)
        if hd is None:
            raise LostAnchor(f'cannot parse impl header in module {mod}: {h[:120]}')
        tr, args, st = hd['trait'], hd['args'], hd['self_ty']
        T = self.types
        own = lambda a, x: a in ('Self', x)        # the type itself, written either way

        def unit_of(n):
            return n[:-4] if n.endswith('Unit') and n[:-4] in T else None
        if tr is None:
            owner = unit_of(st) or (st if st in T else None)
            if owner is None:
                raise LostAnchor(f'unexpected inherent impl in module {mod}: {h[:100]}')
            body = ''
            for x in c.children():
                if x.kw == 'const' and x.name == 'VARIANTS':
                    continue      # VARIANTS array (K-reg)
                if x.kw != 'fn':
                    raise LostAnchor(f'inherent impl of {st}: unexpected member {x.kw} {x.name}')
                # an inherent method shadows the trait method of the same name at every concrete call site: keep it
                # verbatim so that the generated operators are verified against what they really call
                body += '    ' + self.marker(f'impl {st}::{x.name}', ['C01', 'C04', 'C08', 'C18'], x) + '\n' + self.fn_text(x) + '\n'
            if body:
                self.sink(owner).append(f'impl {st} {{\n{body}}}\n')
            return
        if tr in ('fmt::Display', 'Display', 'core::fmt::Display', 'std::fmt::Display'):
            return   # R3
        if tr == 'Quantity' and not args and st in T:
            return self.emit_impl_quantity(T[st], c)
        if tr == 'Unit' and not args and unit_of(st):
            return self.emit_impl_unit(T[unit_of(st)], c)
        if tr == 'LinearScaledUnit' and not args and unit_of(st):
            return self.emit_impl_lsu(T[unit_of(st)], c)
        if tr == 'HasRefUnit' and not args and st in T:
            return self.emit_impl_hasref(T[st], c)
        if tr == 'Eq' and not args and st in T:
            self.sink(st).append(f'impl Eq for {st} {{}}\n')
            return
        if tr == 'PartialEq' and st in T and (not args or (len(args) == 1 and own(args[0], st))):
            return self.emit_cmp(T[st], c, 'eq')
        if tr == 'PartialOrd' and st in T and (not args or (len(args) == 1 and own(args[0], st))):
            return self.emit_cmp(T[st], c, 'partial_cmp')
        if tr in ('Add', 'Sub', 'Div') and st in T and (not args or (len(args) == 1 and own(args[0], st))):
            return self.emit_like_op(T[st], c, tr)
        if tr == 'Mul' and st == 'AmountT' and len(args) == 1 and unit_of(args[0]):
            return self.emit_scalar(T[unit_of(args[0])], c, 'amnt_x_unit')
        if tr == 'Mul' and unit_of(st) and args == ['AmountT']:
            return self.emit_scalar(T[unit_of(st)], c, 'unit_x_amnt')
        if tr == 'Mul' and st == 'AmountT' and len(args) == 1 and args[0] in T:
            return self.emit_scalar(T[args[0]], c, 'amnt_x_qty')
        if tr == 'Mul' and st in T and args == ['AmountT']:
            return self.emit_scalar(T[st], c, 'qty_x_amnt')
        if tr == 'Div' and st in T and args == ['AmountT']:
            return self.emit_scalar(T[st], c, 'qty_div_amnt')
        if tr == 'Mul' and st in T and len(args) == 1 and re.fullmatch(r'Rate<(\w+),(Self|%s)>' % re.escape(st), args[0]):
            return self.emit_rate(T[st], c, 'mul')
        if tr == 'Div' and st in T and len(args) == 1 and re.fullmatch(r'Rate<(Self|%s),(\w+)>' % re.escape(st), args[0]):
            return self.emit_rate(T[st], c, 'div')
        if tr in ('Mul', 'Div') and len(args) == 1:
            a_ref, b_ref = st.startswith('&'), args[0].startswith('&')
            A = st.lstrip('&')
            B = args[0].lstrip('&')
            same = False
            if B == 'Self':
                B = A
                if a_ref and not b_ref:
                    b_ref, same = True, True      # `Mul<Self> for &A`: the argument is `&A` with the same lifetime
            ok = lambda n: n == 'AmountT' or n in T
            if ok(A) and ok(B):
                if not a_ref and not b_ref:
                    return self.emit_derived(c, tr, A, B)
                form = 'ref_val' if (a_ref and not b_ref) else ('val_ref' if (b_ref and not a_ref) else ('ref_ref_same' if same else 'ref_ref'))
                return self.emit_fwd(c, tr, A, B, form)
        raise LostAnchor(f'unrecognised impl in module {mod}: {h[:120]}')

    # ---------- emitters ----------
    def emit_struct(self, qt, c):
        fields = '    pub amount: AmountT,\n' + ('' if qt.single else f'    pub unit: {qt.unit_enum},\n')
        self.sink(qt.name).append(f'// R5: fields pub, derives reduced to Copy/Clone ({self.label}:{c.line_span()[0]})\n'
                                  f'#[derive(Copy, Clone)]\npub struct {qt.name} {{\n{fields}}}\n')

    def emit_enum(self, qt, c):
        U = qt.unit_enum
        vs = ''.join(f'    {v},\n' for v in qt.variants)
        self.sink(qt.name).append(
            f'#[derive(Copy, Clone, Eq)]\npub enum {U} {{\n{vs}}}\n'
            f'impl PartialEqSpecImpl for {U} {{\n'
            f'    open spec fn obeys_eq_spec() -> bool {{ true }}\n'
            f'    open spec fn eq_spec(&self, other: &{U}) -> bool {{ *self == *other }}\n}}\n'
            f'impl PartialEq for {U} {{\n    #[verifier::external_body] // A-derive\n'
            f'    fn eq(&self, other: &{U}) -> (r: bool) {{ unimplemented!() }}\n}}\n')

    def emit_impl_unit(self, qt, c):
        self.sink(qt.name).append(f'impl Unit for {qt.unit_enum} {{\n    #[verifier::external_body] // R3\n'
                                  f'    fn symbol(&self) -> String {{ unimplemented!() }}\n}}\n')

    def emit_impl_quantity(self, qt, c):
        X, U = qt.name, qt.unit_enum
        fns = {f.name: f for f in self.fn_children(c)}
        for need in ('new', 'amount', 'unit'):
            if need not in fns:
                raise LostAnchor(f'impl Quantity for {X}: fn {need} missing')
        extra = sorted(set(fns) - {'new', 'amount', 'unit'})
        if extra:
            raise LostAnchor(f'impl Quantity for {X} overrides default methods {extra} (not modelled)')
        if qt.single:
            unit_spec = f'{U}::{qt.variants[0]}'
            new_spec = f'{X} {{ amount }}'
        else:
            unit_spec = 'self.unit'
            new_spec = f'{X} {{ amount, unit }}'
        base = ['C08', 'C13', 'C18'] + (['C01', 'C02', 'C03', 'C04'] if qt.has_ref else ['C10'])
        out = [f'impl Quantity for {X} {{', f'    type UnitType = {U};',
               f'    open spec fn amount_spec(&self) -> AmountT {{ self.amount }}',
               f'    open spec fn unit_spec(&self) -> {U} {{ {unit_spec} }}',
               f'    open spec fn new_spec(amount: AmountT, unit: {U}) -> {X} {{ {new_spec} }}',
               f'    proof fn new_spec_props(amount: AmountT, unit: {U}) {{}}']
        for n in ('new', 'amount', 'unit'):
            out.append('    ' + self.marker(f'impl Quantity for {X}::{n}', base, fns[n]))
            out.append(self.fn_text(fns[n]))
        out.append('}\n')
        self.sink(X).append('\n'.join(out))

    def emit_impl_lsu(self, qt, c):
        X, U = qt.name, qt.unit_enum
        ch = c.children()
        const = next((x for x in ch if x.kw == 'const' and x.name == 'REF_UNIT'), None)
        scale = next((x for x in ch if x.kw == 'fn' and x.name == 'scale'), None)
        if const is None or scale is None:
            raise LostAnchor(f'impl LinearScaledUnit for {U}: REF_UNIT or scale missing')
        others = [x for x in ch if x.kw == 'fn' and x.name != 'scale']
        for x in others:
            if x.name not in ('ratio', 'is_ref_unit'):
                raise LostAnchor(f'impl LinearScaledUnit for {U} overrides {x.name} (not modelled)')
        m = re.match(r'const REF_UNIT : Self = Self :: (\w+)$', const.header_norm())
        if not m:
            raise LostAnchor(f'{U}::REF_UNIT has unexpected shape')
        qt.ref_variant = m.group(1)
        # parse `match self { Self::V => <lit>, ... }`
        bt = scale.toks[scale.body_open + 1:scale.body_close]
        if [t.text for t in bt[:3]] != ['match', 'self', '{']:
            raise LostAnchor(f'{U}::scale: body is not `match self {{..}}`')
        mclose = rsparse.match_close(bt, 2)
        if mclose != len(bt) - 1:
            raise LostAnchor(f'{U}::scale: trailing code after the match')
        arms = []
        i = 3
        while i < mclose:
            if [t.text for t in bt[i:i + 3]] != ['Self', '::', bt[i + 2].text] or bt[i + 3].text != '=>':
                raise LostAnchor(f'{U}::scale: unexpected match arm at {bt[i].text}')
            v = bt[i + 2].text
            j = i + 4
            depth = 0
            while j < mclose and not (bt[j].text == ',' and depth == 0):
                if bt[j].text in rsparse.OPEN:
                    depth += 1
                elif bt[j].text in rsparse.CLOSE:
                    depth -= 1
                j += 1
            lit_toks = bt[i + 4:j]
            fr = parse_literal(lit_toks)
            if fr is None:
                raise LostAnchor(f'{U}::scale: arm {v} is not a literal: {norm_tokens(lit_toks)[:60]}')
            arms.append((v, fr, lit_toks))
            i = j + 1
        if sorted(v for v, _, _ in arms) != sorted(qt.variants):
            raise LostAnchor(f'{U}::scale: arms do not cover the variants exactly')
        body = scale.body_text()
        # R6: replace each literal expression by its named constant (right to left keeps offsets valid)
        base = scale.toks[scale.body_open].start
        for v, fr, lt in sorted(arms, key=lambda a: -a[2][0].start):
            n = self.lits.use(fr)
            body = body[:lt[0].start - base] + f'amnt_lit_{n}()' + body[lt[-1].end - base:]
            qt.scale[v] = fr
        spec_arms = ''.join(f'            Self::{v} => lit_{lit_name(fr)}(),\n' for v, fr, _ in arms)
        val_arms = ''.join(f'        {U}::{v} => {real_of(fr)},\n' for v, fr, _ in arms)
        sig = rsparse.FnSig(scale)
        out = [f'impl LinearScaledUnit for {U} {{',
               f'    open spec fn scale_spec(&self) -> AmountT {{\n        match self {{\n{spec_arms}        }}\n    }}',
               '    ' + const.text(),
               '    ' + self.marker(f'impl LinearScaledUnit for {U}::scale', ['C07', 'C01', 'C18'], scale, note='R6-literals'),
               f'    {sig.prefix} -> {sig.ret} {body}']
        for x in others:   # checked by Verus against the trait's contract of that method
            out += ['    ' + self.marker(f'impl LinearScaledUnit for {U}::{x.name}', ['C01', 'C09'], x), self.fn_text(x)]
        out += ['}',
               f'// exact rational value of each scale literal as written in the source ({self.label})',
               f'pub open spec fn scale_value_{X}(u: {U}) -> real {{\n    match u {{\n{val_arms}    }}\n}}',
               f'//@ob id={self.unit}:lemma_C07_ref_unit_scale_one_{X} props=C07,C05,C09 kind=lemma',
               f'proof fn lemma_C07_ref_unit_scale_one_{X}()\n    ensures\n        <{U} as LinearScaledUnit>::REF_UNIT.scale_spec() == AMNT_ONE,\n'
               f'        <{X} as HasRefUnit>::REF_UNIT == <{U} as LinearScaledUnit>::REF_UNIT,\n        scale_value_{X}(<{U} as LinearScaledUnit>::REF_UNIT) == 1real,\n{{\n}}\n']
        self.sink(X).append('\n'.join(out))

    def emit_impl_hasref(self, qt, c):
        ch = c.children()
        const = next((x for x in ch if x.kw == 'const' and x.name == 'REF_UNIT'), None)
        if const is None:
            raise LostAnchor(f'impl HasRefUnit for {qt.name}: no REF_UNIT')
        out = [f'impl HasRefUnit for {qt.name} {{', f'    {const.text()}']
        # a type that overrides a provided method: the override is checked against the trait's contract of that
        # method (Verus imposes the trait method's ensures on every impl).  `unit_from_scale` is assumed in V and
        # proved by Kani on the compiled function of every type (K-ufs), which then is the override; `_fit` would
        # need the R3 slice and is left to K-fit.
        props_of = {'equiv_amount': ['C01'], 'convert': ['C01'], 'eq': ['C02'], 'partial_cmp': ['C02'],
                    'add': ['C03'], 'sub': ['C03'], 'div': ['C03']}
        for x in ch:
            if x.kw != 'fn':
                continue
            if x.name == 'unit_from_scale':
                self.records.append({'obligation': f'{self.unit}:impl HasRefUnit for {qt.name}::unit_from_scale (not in V: decided by K-ufs)',
                                     'function': f'impl HasRefUnit for {qt.name}::unit_from_scale', 'file': self.label,
                                     'lines': list(x.line_span()), 'sha256_body': x.body_sha(), 'props': ['C09'], 'rewrites': ['dropped: K-ufs']})
                continue
            if x.name not in props_of:
                raise LostAnchor(f'impl HasRefUnit for {qt.name}: unexpected member {x.name}')
            out += ['    ' + self.marker(f'impl HasRefUnit for {qt.name}::{x.name}', props_of[x.name] + ['C18'], x), self.fn_text(x)]
        out.append('}\n')
        self.sink(qt.name).append('\n'.join(out))

    def emit_cmp(self, qt, c, which):
        X = qt.name
        fn = next((f for f in self.fn_children(c) if f.name == which), None)
        if fn is None:
            raise LostAnchor(f'{c.header_norm()}: fn {which} missing')
        fam = 'hasref' if qt.has_ref else 'noref'
        prop = 'C02' if qt.has_ref else 'C10'
        if which == 'eq':
            spec = (f'impl PartialEqSpecImpl for {X} {{\n    open spec fn obeys_eq_spec() -> bool {{ true }}\n'
                    f'    open spec fn eq_spec(&self, other: &{X}) -> bool {{ {fam}_eq_spec(*self, *other) }}\n}}\n')
            head = f'impl PartialEq<Self> for {X} {{'
        else:
            spec = (f'impl PartialOrdSpecImpl for {X} {{\n    open spec fn obeys_partial_cmp_spec() -> bool {{ true }}\n'
                    f'    open spec fn partial_cmp_spec(&self, other: &{X}) -> Option<Ordering> {{ {fam}_cmp_spec(*self, *other) }}\n}}\n')
            head = f'impl PartialOrd for {X} {{'
        body = ''
        # every method the impl defines is emitted (an overriding `ne`, `lt`, `le`, `gt`, `ge` is checked by
        # Verus against vstd's specification of that method in terms of eq_spec / partial_cmp_spec)
        for f in self.fn_children(c):
            body += '    ' + self.marker(f'{c.header_norm().replace(" ", "")}::{f.name}', [prop, 'C18'], f) + '\n' + self.fn_text(f) + '\n'
        self.sink(X).append(spec + head + '\n' + body + '}\n')

    def emit_like_op(self, qt, c, op):
        X = qt.name
        meth, aop = OPS[op]
        fn = next((f for f in self.fn_children(c) if f.name == meth), None)
        if fn is None:
            raise LostAnchor(f'{c.header_norm()}: fn {meth} missing')
        out_ty = self.out_type(c)
        if qt.has_ref:
            rhs_amt = 'ea(rhs, self.unit_spec())'
            req = 'true'
            prop = 'C03'
        else:
            rhs_amt = 'rhs.amount_spec()'
            req = 'true' if qt.single else 'self.unit_spec() == rhs.unit_spec()'
            prop = 'C10'
        val = f'{aop}(self.amount_spec(), {rhs_amt})'
        if op == 'Div':
            ret_ty, spec_val = 'AmountT', val
            if out_ty != 'AmountT':
                raise LostAnchor(f'{c.header_norm()}: Output is {out_ty}, expected AmountT')
        else:
            ret_ty, spec_val = X, f'<{X} as Quantity>::new_spec({val}, self.unit_spec())'
            if out_ty != 'Self':
                raise LostAnchor(f'{c.header_norm()}: Output is {out_ty}, expected Self')
        spec = (f'impl {op}SpecImpl<{X}> for {X} {{\n    open spec fn obeys_{meth}_spec() -> bool {{ true }}\n'
                f'    open spec fn {meth}_req(self, rhs: {X}) -> bool {{ {req} }}\n'
                f'    open spec fn {meth}_spec(self, rhs: {X}) -> {ret_ty} {{ {spec_val} }}\n}}\n')
        self.sink(X).append(spec + f'impl {op}<Self> for {X} {{\n    type Output = {out_ty};\n    '
                            + self.marker(f'impl{op}<Self>for{X}::{meth}', [prop, 'C18'], fn) + '\n' + self.fn_text(fn) + '\n}\n')

    def emit_scalar(self, qt, c, kind):
        X, U = qt.name, qt.unit_enum
        fn = self.fn_children(c)[0]
        out_ty = self.out_type(c)
        if kind == 'amnt_x_unit':
            tr, slf, rhs, spec = 'Mul', 'AmountT', U, f'<{X} as Quantity>::new_spec(self, rhs)'
        elif kind == 'unit_x_amnt':
            tr, slf, rhs, spec = 'Mul', U, 'AmountT', f'<{X} as Quantity>::new_spec(rhs, self)'
        elif kind == 'amnt_x_qty':
            tr, slf, rhs, spec = 'Mul', 'AmountT', X, f'<{X} as Quantity>::new_spec(a_mul(self, rhs.amount_spec()), rhs.unit_spec())'
        elif kind == 'qty_x_amnt':
            tr, slf, rhs, spec = 'Mul', X, 'AmountT', f'<{X} as Quantity>::new_spec(a_mul(self.amount_spec(), rhs), self.unit_spec())'
        else:
            tr, slf, rhs, spec = 'Div', X, 'AmountT', f'<{X} as Quantity>::new_spec(a_div(self.amount_spec(), rhs), self.unit_spec())'
        meth = OPS[tr][0]
        if fn.name != meth or out_ty not in (X, 'Self'):
            raise LostAnchor(f'{c.header_norm()}: unexpected method/Output')
        text = (f'impl {tr}SpecImpl<{rhs}> for {slf} {{\n    open spec fn obeys_{meth}_spec() -> bool {{ true }}\n'
                f'    open spec fn {meth}_req(self, rhs: {rhs}) -> bool {{ true }}\n'
                f'    open spec fn {meth}_spec(self, rhs: {rhs}) -> {X} {{ {spec} }}\n}}\n'
                f'impl {tr}<{rhs}> for {slf} {{\n    type Output = {out_ty};\n    '
                + self.marker(f'impl{tr}<{rhs}>for{slf}::{meth}', ['C08', 'C18'], fn) + '\n' + self.fn_text(fn) + '\n}\n')
        self.sink(X).append(text)

    def emit_rate(self, qt, c, which):
        X = qt.name
        fn = self.fn_children(c)[0]
        whole = rewrite_literals(fn, self.lits)
        body, n = rewrite_as_qty_calls(whole[fn.toks[fn.body_open].start - fn.start:], 'Self')
        if n != 1:
            raise LostAnchor(f'{c.header_norm()}: expected one .as_qty() call')
        sig = rsparse.FnSig(fn)
        if which == 'mul':
            # X * Rate<TQ, X>  ==  rate * x
            text = (f'impl<TQ: Quantity> MulSpecImpl<Rate<TQ, {X}>> for {X} {{\n'
                    f'    open spec fn obeys_mul_spec() -> bool {{ true }}\n'
                    f'    open spec fn mul_req(self, rhs: Rate<TQ, {X}>) -> bool {{ <{X} as DivSpec<{X}>>::div_req(self, <{X} as Quantity>::new_spec(AMNT_ONE, rhs.per_unit)) }}\n'
                    f'    open spec fn mul_spec(self, rhs: Rate<TQ, {X}>) -> TQ {{ rate_mul_spec::<TQ, {X}>(rhs, self) }}\n}}\n'
                    f'impl<TQ: Quantity> Mul<Rate<TQ, Self>> for {X} {{\n    type Output = TQ;\n    ')
        else:
            text = (f'impl<PQ: Quantity> DivSpecImpl<Rate<{X}, PQ>> for {X} {{\n'
                    f'    open spec fn obeys_div_spec() -> bool {{ true }}\n'
                    f'    open spec fn div_req(self, rhs: Rate<{X}, PQ>) -> bool {{ <{X} as DivSpec<{X}>>::div_req(self, <{X} as Quantity>::new_spec(AMNT_ONE, rhs.term_unit)) }}\n'
                    f'    open spec fn div_spec(self, rhs: Rate<{X}, PQ>) -> PQ {{ qty_div_rate_spec::<{X}, PQ>(self, rhs) }}\n}}\n'
                    f'impl<PQ: Quantity> Div<Rate<Self, PQ>> for {X} {{\n    type Output = PQ;\n    ')
        text += (self.marker(f'{c.header_norm().replace(" ", "")}::{fn.name}', ['C13', 'C18'], fn, note='R1-as_qty-call') + '\n'
                 + f'    {sig.prefix} -> {sig.ret} {body}\n}}\n')
        self.sink(X).append(text)

    def emit_derived(self, c, op, A, B):
        meth = OPS[op][0]
        fn = self.fn_children(c)[0]
        R = self.out_type(c)
        hdr = c.header_text()
        for t in (A, B, R):
            if t != 'AmountT' and (t not in self.types or not self.types[t].has_ref):
                raise LostAnchor(f'{c.header_norm()}: operand/result type {t} has no reference unit in this expansion')
        self.derived.append((A, op, B, R))
        rhs_ty = B
        text = (f'impl {op}SpecImpl<{rhs_ty}> for {A} {{\n    open spec fn obeys_{meth}_spec() -> bool {{ true }}\n'
                f'    open spec fn {meth}_req(self, rhs: {rhs_ty}) -> bool {{ true }}\n'
                f'    open spec fn {meth}_spec(self, rhs: {rhs_ty}) -> {R} {{ derived_{meth}_spec::<{A}, {B}, {R}>(self, rhs) }}\n}}\n'
                f'{hdr} {{\n    type Output = {R};\n    '
                + self.marker(f'impl{op}<{B}>for{A}::{meth}', ['C04', 'C05', 'C18'], fn) + '\n' + self.fn_text(fn) + '\n}\n')
        self.out_ref.append(text)

    def emit_fwd(self, c, op, A, B, form):
        meth = OPS[op][0]
        fn = self.fn_children(c)[0]
        hdr = c.header_text()
        out_ty = self.out_type(c)
        R = f'<{A} as {op}<{B}>>::Output'
        if form == 'ref_val':
            gen, slf, rhs, call = "<'a>", f"&'a {A}", B, '<{A} as {O}Spec<{B}>>::{m}_spec(*self, rhs)'
        elif form == 'val_ref':
            gen, slf, rhs, call = "<'a>", A, f"&'a {B}", '<{A} as {O}Spec<{B}>>::{m}_spec(self, *rhs)'
        else:
            gen, slf, rhs, call = "<'a, 'b>", f"&'a {A}", f"&'b {B}", '<{A} as {O}Spec<{B}>>::{m}_spec(*self, *rhs)'
            if form == 'ref_ref_same':
                gen, rhs = "<'a>", f"&'a {B}"
        call = call.format(m=meth, A=A, B=B, O=op)
        text = (f'impl{gen} {op}SpecImpl<{rhs}> for {slf} {{\n    open spec fn obeys_{meth}_spec() -> bool {{ true }}\n'
                f'    open spec fn {meth}_req(self, rhs: {rhs}) -> bool {{ true }}\n'
                f'    open spec fn {meth}_spec(self, rhs: {rhs}) -> {R} {{ {call} }}\n}}\n'
                f'{hdr} {{\n    type Output = {out_ty};\n    '
                + self.marker(f'{c.header_norm().split(" where ")[0].replace(" ", "")}::{meth}', ['C04', 'C18'], fn) + '\n' + self.fn_text(fn) + '\n}\n')
        self.out_ref.append(text)


def build_types_units(exp_text, label, unit_prefix, modules=None, crate_root=False, subst=None, c07=None):
    """returns {'ref': (text, records), 'noref': (text, records)} for one expansion"""
    import gen_verus
    subst = subst or gen_verus.F64_SUBST
    tg = TypesGen(exp_text, label, unit_prefix, modules=modules, crate_root=crate_root)
    tg.emit_all()
    out = {}
    # --- types with reference unit: built on gen_hasref ---
    em = gen_verus.Emitter(unit_prefix + '_ref', gen_verus.Contracts('generic.toml'), lits=tg.lits)
    tg_ref_unit = unit_prefix + '_ref'
    parts = [em.render('shim_m0.vrs', subst), em.render('traits_core.vrs', subst, quantity_defaults='renamed')]
    parts += [em.render(f, subst) for f in ('hasref_specs.vrs', 'trait_hasref.vrs', 'one_amount.vrs', 'one_hasref.vrs', 'rate.vrs',
                                            'derived_specs.vrs', 'lemmas_quantity_m0.vrs')]
    body_ref = '\n'.join(tg.out_ref).replace(f'id={unit_prefix}:', f'id={tg_ref_unit}:')
    # R4: calls of Quantity's own default methods from a type with reference unit go to the renamed copies
    body_ref = re.sub(r'<\s*Self\s+as\s+Quantity\s*>\s*::\s*(eq|partial_cmp|add|sub|div)\s*\(', r'<Self as Quantity>::q_\1(', body_ref)
    body_noref = '\n'.join(tg.out_noref).replace(f'id={unit_prefix}:', f'id={unit_prefix}_noref:')
    if tg.out_noref:
        em2 = gen_verus.Emitter(unit_prefix + '_noref', gen_verus.Contracts('generic.toml'), lits=tg.lits)
        parts2 = [em2.render('shim_m0.vrs', subst), em2.render('traits_core.vrs', subst, quantity_defaults=True),
                  em2.render('rate.vrs', subst), em2.render('lemmas_quantity_m0.vrs', subst)]
    lits = tg.lits.decls()
    text = gen_verus.mark_lemmas(gen_verus.wrap('\n\n'.join(parts + [lits, body_ref])), tg_ref_unit)
    if c07:
        out['c07'] = (gen_verus.wrap(c07_text(tg, *c07)), [])
        if c07[0] == 'quantities':
            out['c14'] = (gen_verus.wrap(c14_text(tg, c07[1], unit_prefix.replace('types_', 'c14_'))), [])
    recs_ref = [dict(r, obligation=r['obligation'].replace(f'{unit_prefix}:', f'{tg_ref_unit}:')) for r in tg.records]
    out['ref'] = (text, em.records + recs_ref)
    if tg.out_noref:
        text2 = gen_verus.mark_lemmas(gen_verus.wrap('\n\n'.join(parts2 + [lits, body_noref])), unit_prefix + '_noref')
        recs2 = [dict(r, obligation=r['obligation'].replace(f'{unit_prefix}:', f'{unit_prefix}_noref:')) for r in tg.records]
        out['noref'] = (text2, em2.records + recs2)
    out['gen'] = tg
    return out


# ---------------- C07: scales against the independent table ----------------
def si_exponents():
    import tomllib
    from common import VERIF
    with open(os.path.join(VERIF, 'spec', 'si_prefixes.toml'), 'rb') as f:
        return {p['const']: p['exp'] for p in tomllib.load(f)['prefix']}


def c07_text(tg, crate, cfg_kind, decl_map):
    """Verus text: chained definitions from spec/units.toml + one lemma per unit.
    cfg_kind: 'f64' | 'dec'.  decl_map: {QtyName: QtyDecl} from the current sources
    (identifier <-> variant mapping only)."""
    import spec_tables as ST
    from common import Undecided
    tab = ST.Table(crate)
    out = ['// ===== C07: published definitions (spec/units.toml), chained to the reference unit =====',
           'pub open spec fn abs_r(x: real) -> real { if x >= 0real { x } else { -x } }']
    unit = tg.unit.replace('types_', 'c07_')
    for X, qt in sorted(tg.types.items()):
        if not qt.has_ref:
            continue
        U = qt.unit_enum
        out.append(f'pub enum {U} {{\n' + ''.join(f'    {v},\n' for v in qt.variants) + '}')
        out.append(f'// exact rational value of each scale literal of {U}::scale() as written in {tg.label} (same table as scale_value_{X} in the types unit)')
        out.append(f'pub open spec fn scale_value_{X}(u: {U}) -> real {{\n    match u {{\n' + ''.join(f'        {U}::{v} => {real_of(qt.scale[v])},\n' for v in qt.variants) + '    }\n}')
    # definition functions for every quantity of the crate that has scales
    for q, units in tab.data.items():
        for u, row in units.items():
            if row.get('def') is None:
                continue
            if tab.has_pi(q, u):
                lo, hi = tab.interval(q, u)
                out.append(f'pub open spec fn defn_lo_{q}_{u}() -> real {{ {real_of(lo)} }}  // enclosure via pi in [3.14159265358979323846264338327950288419716939937510, ..11]')
                out.append(f'pub open spec fn defn_hi_{q}_{u}() -> real {{ {real_of(hi)} }}')
            else:
                out.append(f'pub open spec fn defn_{q}_{u}() -> real {{ {tab.verus_expr(q, tab.ast(q, u))} }}')
                # helper: the chained definition evaluates to this constant (hint computed by the
                # generator, checked by Verus step by step; nonlinear only over named constants)
                refs = sorted(set(tab.refs(q, u)))
                val = tab.interval(q, u)[0]
                calls = ''.join(f'    lemma_defn_{rq}_{ru}();\n' for rq, ru in refs)
                if refs:
                    binds = ''.join(f'    let v_{rq}_{ru} = defn_{rq}_{ru}();\n' for rq, ru in refs)
                    expr = tab.verus_expr(q, tab.ast(q, u))
                    for rq, ru in refs:
                        expr = expr.replace(f'defn_{rq}_{ru}()', f'v_{rq}_{ru}')
                    reqs = ', '.join(f'v_{rq}_{ru} == {real_of(tab.interval(rq, ru)[0])}' for rq, ru in refs)
                    body = f'{calls}{binds}    assert({expr} == {real_of(val)}) by (nonlinear_arith)\n        requires {reqs};\n'
                else:
                    body = ''
                out.append(f'proof fn lemma_defn_{q}_{u}()\n    ensures defn_{q}_{u}() == {real_of(val)}\n{{\n{body}}}')
    exps = si_exponents()
    EPS = Fraction(1, 2 ** 52)
    for X, qt in sorted(tg.types.items()):
        if not qt.has_ref:
            continue
        if X not in decl_map:
            raise Undecided(f'C07: type {X} is in the expansion but not declared in the sources read')
        rows = tab.units(X)
        declared = {u.variant: u for u in decl_map[X].units}
        idents = {u.ident for u in decl_map[X].units}
        if set(rows) != idents:
            raise Undecided(f'C07: spec/units.toml [{crate}.{X}] and the declared units differ: '
                            f'only in table {sorted(set(rows) - idents)}, only in source {sorted(idents - set(rows))}')
        U = qt.unit_enum
        for v in qt.variants:
            d = declared.get(v)
            if d is None:
                raise Undecided(f'C07: variant {U}::{v} has no declaration')
            ident = d.ident
            lit = qt.scale[v]
            name = f'lemma_C07_scale_{X}_{v}'
            hdr = f'//@ob id={unit}:{name} props=C07 kind=lemma note=unit:{ident}'
            if tab.has_pi(X, ident):
                f64v = Fraction(float(lit))
                out.append(hdr)
                lo, hi = tab.interval(X, ident)
                out.append(f'proof fn {name}()\n    ensures\n        scale_value_{X}({U}::{v}) == {real_of(lit)},\n'
                           f'        // binary64 value of the literal within one ulp (2^-52 relative) of the enclosure [defn_lo, defn_hi]\n'
                           f'        defn_lo_{X}_{ident}() == {real_of(lo)}, defn_hi_{X}_{ident}() == {real_of(hi)},\n'
                           f'        {real_of(lo * (1 - EPS))} <= {real_of(f64v)},\n'
                           f'        {real_of(f64v)} <= {real_of(hi * (1 + EPS))},\n{{\n}}')
                continue
            lo, hi = tab.interval(X, ident)
            exact_ok = ST.terminating(lo) and ((cfg_kind == 'f64' and ST.sig_digits(lo) <= 17) or (cfg_kind == 'dec' and ST.frac_digits(lo) <= 18))
            out.append(hdr)
            if exact_ok:
                out.append(f'proof fn {name}()\n    ensures scale_value_{X}({U}::{v}) == defn_{X}_{ident}()\n{{\n    lemma_defn_{X}_{ident}();\n}}')
            elif cfg_kind == 'f64':
                f64v = Fraction(float(lit))
                out.append(f'proof fn {name}()\n    ensures\n        scale_value_{X}({U}::{v}) == {real_of(lit)},\n'
                           f'        // the binary64 value of that literal is {real_of(f64v)}; within one ulp (2^-52 relative) of the definition\n'
                           f'        abs_r({real_of(f64v)} - defn_{X}_{ident}()) <= {real_of(EPS)} * defn_{X}_{ident}(),\n{{\n    lemma_defn_{X}_{ident}();\n}}')
            else:
                out.append(f'proof fn {name}()\n    ensures abs_r(scale_value_{X}({U}::{v}) - defn_{X}_{ident}()) <= (5real / 10000000000000000000real)\n{{\n    lemma_defn_{X}_{ident}();\n}}')
        # positivity of every scale
        out.append(f'//@ob id={unit}:lemma_C07_scales_positive_{X} props=C07,C01 kind=lemma')
        out.append(f'proof fn lemma_C07_scales_positive_{X}(u: {U})\n    ensures scale_value_{X}(u) > 0real\n{{\n}}')
        # mutual consistency of the SI prefixes (prefix names from the table; K checks si_prefix() against the table)
        si = [(declared[v].variant, exps[rows[declared[v].ident]['prefix']]) for v in qt.variants if rows[declared[v].ident].get('prefix')]
        if len(si) >= 2:
            pv, pe = si[0]
            clauses = []
            for v, e in si[1:]:
                k = e - pe
                a, b = (10 ** k, 1) if k >= 0 else (1, 10 ** (-k))
                clauses.append(f'        scale_value_{X}({U}::{v}) * {b}real == scale_value_{X}({U}::{pv}) * {a}real,')
            out.append(f'//@ob id={unit}:lemma_C07_si_prefixes_consistent_{X} props=C07 kind=lemma')
            out.append(f'proof fn lemma_C07_si_prefixes_consistent_{X}()\n    ensures\n' + '\n'.join(clauses) + '\n{\n}')
    return '\n'.join(out) + '\n'


if __name__ == '__main__':
    exp = open(sys.argv[1]).read()
    import decls
    res = build_types_units(exp, 'expanded:quantities', 'types_q_f64', c07=('quantities', sys.argv[3] if len(sys.argv) > 3 else 'f64', decls.catalogue()))
    open(sys.argv[2] + '_ref.rs', 'w').write(res['ref'][0])
    if 'noref' in res:
        open(sys.argv[2] + '_noref.rs', 'w').write(res['noref'][0])
    if 'c07' in res:
        open(sys.argv[2] + '_c07.rs', 'w').write(res['c07'][0])
    print({k: len(v.variants) for k, v in res['gen'].types.items()})
    print(res['gen'].derived)




# ---------------- C14: the temperature table against the exact physical formulas ----------------
def c14_text(tg, cfg_kind, unit_name):
    """Verus text over the constants of TEMPERATURE_CONVERTER as they appear in the expansion."""
    import tomllib
    import spec_tables as ST
    from common import VERIF, Undecided
    item = next((c for c in tg.conv_tables if c.name == 'TEMPERATURE_CONVERTER'), None)
    if item is None:
        raise LostAnchor('TEMPERATURE_CONVERTER not found in the expansion')
    toks = item.toks
    # locate `mappings : [ ... ]`
    i = next((k for k in range(item.first, item.last) if toks[k].text == 'mappings' and toks[k + 1].text == ':' and toks[k + 2].text == '['), None)
    if i is None:
        raise LostAnchor('TEMPERATURE_CONVERTER: `mappings: [..]` not found')
    close = rsparse.match_close(toks, i + 2)
    rows = []
    k = i + 3
    while k < close:
        if toks[k].text == '(':
            c = rsparse.match_close(toks, k)
            parts, cur, depth = [], [], 0
            for t in toks[k + 1:c]:
                if t.text in rsparse.OPEN:
                    depth += 1
                elif t.text in rsparse.CLOSE:
                    depth -= 1
                if t.text == ',' and depth == 0:
                    parts.append(cur)
                    cur = []
                else:
                    cur.append(t)
            if cur:
                parts.append(cur)
            if len(parts) != 4 or len(parts[0]) != 1 or len(parts[1]) != 1:
                raise LostAnchor('TEMPERATURE_CONVERTER: unexpected row shape')
            f = find_literals(parts[2], 0, len(parts[2]))
            o = find_literals(parts[3], 0, len(parts[3]))

            def lit(p, found):
                names = [t.text for t in p if t.kind == 'ident']
                if not found and len(names) == 1 and names[0] in tg.amnt_consts:
                    v = tg.amnt_consts[names[0]]
                    return -v if p[0].text == '-' else v
                if len(found) != 1:
                    raise LostAnchor('TEMPERATURE_CONVERTER: factor/offset is not a single literal')
                fr = found[0][2]
                neg = p[0].text == '-' and found[0][0] == 1
                return -fr if neg else fr
            rows.append((parts[0][0].text, parts[1][0].text, lit(parts[2], f), lit(parts[3], o)))
            k = c + 1
        else:
            k += 1
    with open(os.path.join(VERIF, 'spec', 'temperature.toml'), 'rb') as fh:
        spec = tomllib.load(fh)['row']

    def ev(s):
        tab = ST.Table('quantities')
        n = ST.parse(s.replace('-', '0-', 1) if s.startswith('-') else s)
        lo, hi = tab._ev('Temperature', n, ())
        return lo

    def upper(ident):
        import decls
        return decls.upper_snake(ident)
    EPS = Fraction(1, 2 ** 52)
    DQ = Fraction(5, 10 ** 19)

    def value(fr):
        # the amount value the literal denotes: nearest binary64 / the decimal itself
        return Fraction(float(fr)) if cfg_kind == 'f64' else fr

    def near(actual, exact):
        """Verus clause: `actual` (a literal's value) equals `exact` as far as the amount type allows"""
        if cfg_kind == 'f64':
            if ST.terminating(exact) and ST.sig_digits(exact) <= 17:
                return None
            return f'abs_r({real_of(actual)} - {real_of(exact)}) <= {real_of(EPS)} * abs_r({real_of(exact)})'
        if ST.terminating(exact) and ST.frac_digits(exact) <= 18:
            return None
        return f'abs_r({real_of(actual)} - {real_of(exact)}) <= {real_of(DQ)}'
    out = ['pub open spec fn abs_r(x: real) -> real { if x >= 0real { x } else { -x } }']
    have = {}
    for r in rows:
        have.setdefault((r[0], r[1]), r)     # first entry for a pair wins (C14)
    want = {(upper(s['from']), upper(s['to'])): s for s in spec}
    for key, s in want.items():
        nm = f'lemma_C14_row_{s["from"]}_to_{s["to"]}'
        out.append(f'//@ob id={unit_name}:{nm} props=C14 kind=lemma')
        if key not in have:
            out.append(f'proof fn {nm}()\n    ensures false // no table entry for this ordered pair\n{{\n}}')
            continue
        _, _, f, o = have[key]
        ef, eo = ev(s['factor']), ev(s['offset'])
        clauses = []
        for what, lit_v, exact in (('factor', f, ef), ('offset', o, eo)):
            c = near(value(lit_v), exact)
            if c is None:
                clauses.append(f'{real_of(lit_v)} == {real_of(exact)}  /* {what} written in the source equals the exact formula */')
            else:
                clauses.append(c + f'  /* {what}: value of the literal {float(lit_v)!r} vs exact {s[what]} */')
        out.append(f'proof fn {nm}()\n    ensures\n' + ''.join(f'        {c},\n'.replace('*/,', '*/') if False else f'        {c.split("  /*")[0]}, //{c.split("  /*")[1][:-2] if "  /*" in c else ""}\n' for c in clauses) + '{\n}')
    # mutually inverse and consistent composition, over the values the table really holds
    tol = 4 * EPS if cfg_kind == 'f64' else None
    names = {upper(s['from']): s['from'] for s in spec}

    def row(a, b):
        r = have.get((a, b))
        return (value(r[2]), value(r[3])) if r else None
    units = sorted(names)
    for a in units:
        for b in units:
            if a >= b:
                continue
            ab, ba = row(a, b), row(b, a)
            if not ab or not ba:
                continue
            # x -> x*f1+o1 -> (..)*f2+o2 = x*(f1 f2) + (o1 f2 + o2): identity up to rounding of the constants
            ff = ab[0] * ba[0]
            oo = ab[1] * ba[0] + ba[1]
            scale = max(abs(ab[1] * ba[0]), abs(ba[1]), 1)
            nm = f'lemma_C14_inverse_{names[a]}_{names[b]}'
            out.append(f'//@ob id={unit_name}:{nm} props=C14 kind=lemma')
            bound_f = 4 * EPS if cfg_kind == 'f64' else 4 * DQ
            bound_o = (4 * EPS * scale) if cfg_kind == 'f64' else (4 * DQ * scale)
            out.append(f'proof fn {nm}()\n    ensures\n'
                       f'        abs_r({real_of(ab[0])} * {real_of(ba[0])} - 1real) <= {real_of(bound_f)},\n'
                       f'        abs_r({real_of(ab[1])} * {real_of(ba[0])} + {real_of(ba[1])}) <= {real_of(bound_o)},\n{{\n}}')
    for a in units:
        for b in units:
            for c in units:
                if len({a, b, c}) != 3:
                    continue
                ab, bc, ac = row(a, b), row(b, c), row(a, c)
                if not (ab and bc and ac):
                    continue
                scale = max(abs(ab[1] * bc[0]), abs(bc[1]), abs(ac[1]), 1)
                bound_f = 4 * EPS * abs(ac[0]) if cfg_kind == 'f64' else 4 * DQ
                bound_o = (4 * EPS * scale) if cfg_kind == 'f64' else (4 * DQ * scale)
                nm = f'lemma_C14_compose_{names[a]}_{names[b]}_{names[c]}'
                out.append(f'//@ob id={unit_name}:{nm} props=C14 kind=lemma')
                out.append(f'proof fn {nm}()\n    ensures\n'
                           f'        abs_r({real_of(ab[0])} * {real_of(bc[0])} - {real_of(ac[0])}) <= {real_of(bound_f)},\n'
                           f'        abs_r(({real_of(ab[1])} * {real_of(bc[0])} + {real_of(bc[1])}) - {real_of(ac[1])}) <= {real_of(bound_o)},\n{{\n}}')
    return '\n'.join(out) + '\n'
