"""Reads the #[quantity] / #[ref_unit] / #[unit] declarations from the current sources.

Used for the inventory (what must exist), for the expected unit order of the registry
(C09) and to cross-check the independent table spec/units.toml (C07)."""
import os
import re
import sys
from fractions import Fraction

sys.path.insert(0, os.path.dirname(os.path.abspath(__file__)))
import rsparse
from gen_verus import LostAnchor


class UnitDecl:
    def __init__(self):
        self.ident = None
        self.symbol = None
        self.prefix = None
        self.scale_tok = None
        self.scale = None      # Fraction (exact value of the literal) or None
        self.doc = None
        self.is_ref = False

    @property
    def variant(self):
        return pascal(self.ident)

    @property
    def const(self):
        return upper_snake(self.ident)

    @property
    def name(self):
        return self.ident.replace('_', ' ')


class QtyDecl:
    def __init__(self, name):
        self.name = name
        self.derived = None    # (lhs, op, rhs)
        self.units = []        # declaration order, reference unit where it was written
        self.file = None
        self.line = None

    @property
    def ref(self):
        return next((u for u in self.units if u.is_ref), None)

    def ordered(self):
        """iteration order stated by the property (C09)"""
        if self.ref is not None:
            seq = [self.ref] + [u for u in self.units if not u.is_ref]
            return sorted(seq, key=lambda u: float(u.scale))   # python's sort is stable
        return sorted(self.units, key=lambda u: u.name)


def words(ident):
    parts = []
    for p in re.split(r'[_\s]+', ident):
        if not p:
            continue
        # split at lower->upper boundaries like convert_case does
        parts += re.findall(r'[0-9]+|[A-Z]+(?![a-z])|[A-Z]?[a-z]+|[A-Z]+', p) or [p]
    return parts


def pascal(ident):
    return ''.join(w[:1].upper() + w[1:].lower() for w in words(ident))


def upper_snake(ident):
    """the macro applies convert_case's UpperSnake to the (Pascal case) variant identifier; word boundaries:
    lower->upper, letter<->digit, and the last capital of an acronym followed by a lower-case letter"""
    v = pascal(ident)
    ws = re.findall(r'[0-9]+|[A-Z]+(?![a-z])|[A-Z]?[a-z]+', v)
    return '_'.join(w.upper() for w in ws)


def split_args(toks):
    args, cur, depth = [], [], 0
    for t in toks:
        if t.kind == 'punct' and t.text in rsparse.OPEN:
            depth += 1
        elif t.kind == 'punct' and t.text in rsparse.CLOSE:
            depth -= 1
        if t.text == ',' and depth == 0:
            args.append(cur)
            cur = []
        else:
            cur.append(t)
    if cur:
        args.append(cur)
    return args


def unquote(s):
    # rust string literal -> python str (handles the escapes used in the sources)
    body = s[1:-1]
    body = re.sub(r'\\u\{([0-9a-fA-F]+)\}', lambda m: chr(int(m.group(1), 16)), body)
    return body.replace('\\"', '"').replace("\\'", "'").replace('\\n', '\n').replace('\\\\', '\\')


def lit_fraction(tok):
    s = tok.replace('_', '')
    s = re.sub(r'(f64|f32|u\d+|i\d+|usize|isize)$', '', s)
    if s.endswith('.'):
        s += '0'
    return Fraction(s)


def parse_decls(path):
    src = open(path).read()
    items, toks = rsparse.parse_file(src)
    out = []

    def walk(items):
        for it in items:
            if it.kw == 'mod' and it.body_open is not None:
                # skip #[cfg(test)] modules
                if any('cfg ( test )' in a for a in it.attrs()):
                    continue
                walk(it.children())
            if it.kw != 'struct':
                continue
            j = it.attr_first
            q = None
            while j < it.first:
                if toks[j].text == '#':
                    k = j + 1
                    e = rsparse.match_close(toks, k)
                    inner = toks[k + 1:e]
                    head = inner[0].text if inner else ''
                    if head == 'quantity':
                        q = QtyDecl(it.name)
                        q.file, q.line = path, src.count('\n', 0, it.start) + 1
                        if len(inner) > 1 and inner[1].text == '(':
                            a = inner[2:-1]
                            if len(a) == 3 and a[1].text in ('*', '/'):
                                q.derived = (a[0].text, a[1].text, a[2].text)
                            elif a:
                                raise LostAnchor(f'{path}: unexpected quantity argument for {it.name}')
                    elif head in ('ref_unit', 'unit') and q is not None:
                        u = UnitDecl()
                        u.is_ref = head == 'ref_unit'
                        args = split_args(inner[2:-1])
                        if len(args) < 2 or args[0][0].kind != 'ident' or args[1][0].kind != 'str':
                            raise LostAnchor(f'{path}: unexpected unit attribute shape on {it.name}')
                        u.ident = args[0][0].text
                        u.symbol = unquote(args[1][0].text)
                        for a in args[2:]:
                            t = a[0]
                            if t.kind == 'ident' and len(a) == 1:
                                u.prefix = t.text
                            elif t.kind == 'num' and len(a) == 1:
                                u.scale_tok = t.text
                                u.scale = lit_fraction(t.text)
                            elif t.kind == 'str' and len(a) == 1:
                                u.doc = unquote(t.text)
                            else:
                                raise LostAnchor(f'{path}: unexpected unit argument {rsparse.norm_tokens(a)} on {it.name}')
                        if u.is_ref:
                            u.scale = Fraction(1)
                        q.units.append(u)
                    j = e + 1
                else:
                    j += 1
            if q is not None:
                out.append(q)
    walk(items)
    return out


CATALOGUE_FILES = ['mass', 'length', 'duration', 'area', 'volume', 'speed', 'acceleration', 'force', 'energy', 'power',
                   'frequency', 'datavolume', 'datathroughput', 'temperature']


def catalogue(repo='/repo'):
    out = {}
    for m in CATALOGUE_FILES:
        p = os.path.join(repo, 'src', m + '.rs')
        if not os.path.exists(p):
            raise LostAnchor(f'{p} missing')
        for q in parse_decls(p):
            q.module = m
            out[q.name] = q
    return out


def astro(repo='/repo'):
    p = os.path.join(repo, 'astronimical_quantities', 'src', 'lib.rs')
    out = {}
    for q in parse_decls(p):
        q.module = None
        out[q.name] = q
    return out


if __name__ == '__main__':
    for name, q in list(catalogue().items()) + list(astro().items()):
        print(name, q.derived, [(u.variant, u.const, u.symbol, u.prefix, str(u.scale)) for u in q.ordered()][:4])
