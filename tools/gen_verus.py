"""Builds the self-contained Verus files from /repo's current working tree.

Hand-written generic functions are sliced out of the source files; the contract
text (requires/ensures, spec functions, lemmas) comes from /verif/contracts.
Every emitted function is preceded by a marker comment

    //@ob id=<obligation id> props=<C..,C..> kind=<exec|lemma|...> src=<file>:<l0>-<l1> sha=<body hash>

which the driver uses to attribute verifier diagnostics to named obligations.
"""
import os
import re
import sys
import tomllib

sys.path.insert(0, os.path.dirname(os.path.abspath(__file__)))
import rsparse
from rsparse import ParseError

VERIF = os.path.dirname(os.path.dirname(os.path.abspath(__file__)))
CONTRACTS = os.path.join(VERIF, 'contracts')
REPO = os.environ.get('VERIF_REPO', '/repo')


class LostAnchor(Exception):
    """The extractor cannot find what it needs in the current tree (=> exit 2)."""


KEEP_ATTRS = ('# [ inline ]', '# [ inline ( always ) ]')


class Source:
    def __init__(self, path, text=None):
        self.path = path
        self.text = text if text is not None else open(path).read()
        try:
            self.items, self.toks = rsparse.parse_file(self.text)
        except ParseError as e:
            raise LostAnchor(f'{path}: {e}')

    def container(self, header):
        """header: normalised header prefix, or 'top'"""
        if header == 'top':
            return self.items
        want = header.strip()
        for it in self.items:
            if it.kw in ('impl', 'trait'):
                h = it.header_norm()
                # drop visibility / supertraits: compare on prefix
                h2 = re.sub(r'^pub ', '', h)
                if h2 == want or h2.startswith(want + ' :') or h2.startswith(want + ' where') or h2.startswith(want + ' <'):
                    return it.children()
        raise LostAnchor(f'{self.path}: container `{header}` not found')

    def member(self, header, name):
        kind = 'fn'
        if name.startswith('const '):
            kind, name = 'const', name[6:]
        for it in self.container(header):
            if it.kw == kind and it.name == name:
                return it
        raise LostAnchor(f'{self.path}: `{name}` not found in `{header}`')


def kept_attrs(item):
    return [a.replace(' ', '') for a in item.attrs() if a in KEEP_ATTRS]


def rel(path):
    return os.path.relpath(path, REPO) if path.startswith(REPO) else path


class Contracts:
    def __init__(self, *files):
        self.tab = {}
        for f in files:
            with open(os.path.join(CONTRACTS, f), 'rb') as fh:
                for k, v in tomllib.load(fh).items():
                    self.tab[re.sub(r'\s+', ' ', k.strip())] = v

    def get(self, container, fn):
        return self.tab.get(f'{container} :: {fn}')


def fmt_clauses(c, indent):
    out = ''
    if c.get('requires'):
        out += indent + 'requires\n' + ''.join(f'{indent}    {x},\n' for x in c['requires'])
    if c.get('ensures'):
        out += indent + 'ensures\n' + ''.join(f'{indent}    {x},\n' for x in c['ensures'])
    return out


def rewrite_as_qty_calls(body, qty):
    """R1: `<expr>.as_qty()` where <expr> is `<ident>.<ident>()` -> `<qty>::unit_as_qty(<expr>)`."""
    new, n = re.subn(r'\b(\w+)\s*\.\s*(per_unit|term_unit)\s*\(\s*\)\s*\.\s*as_qty\s*\(\s*\)',
                     lambda m: f'{qty}::unit_as_qty({m.group(1)}.{m.group(2)}())', body)
    return new, n


def slice_fit(item):
    """R3: replace the iterator pipeline in front of `match last {` by one call."""
    toks = item.toks
    bo, bc = item.body_open, item.body_close
    k = bo + 1
    depth = 0
    m_at = None
    while k < bc:
        t = toks[k]
        if t.kind == 'punct' and t.text in rsparse.OPEN:
            k = rsparse.match_close(toks, k) + 1
            continue
        if t.kind == 'ident' and t.text == 'match' and toks[k + 1].kind == 'ident' and toks[k + 2].text == '{':
            m_at = k          # the last top-level `match <ident> {` of the body
            k = rsparse.match_close(toks, k + 2) + 1
            continue
        k += 1
    if m_at is None:
        raise LostAnchor('_fit: no final `match <selected> { .. }` found')
    if rsparse.match_close(toks, m_at + 2) != bc - 1:
        raise LostAnchor('_fit: the `match` on the selected unit is not the last expression of the body')
    sel = toks[m_at + 1].text
    # statements in front of `match last`: the iterator pipeline (dropped, K-fit) vs anything else (kept verbatim)
    PIPE = {'iter_units', 'iter', 'si_prefix', 'filter', 'next', 'last', 'find', 'take_while', 'skip_while', 'rev', 'max_by',
            'min_by', 'fold', 'position', 'nth', 'collect', 'peekable', 'take', 'skip'}
    stmts, cur, depth = [], [], 0
    for t in toks[bo + 1:m_at]:
        cur.append(t)
        if t.kind == 'punct' and t.text in rsparse.OPEN:
            depth += 1
        elif t.kind == 'punct' and t.text in rsparse.CLOSE:
            depth -= 1
        elif t.text == ';' and depth == 0:
            stmts.append(cur)
            cur = []
    if cur:
        raise LostAnchor('_fit: unterminated statement in front of `match last`')
    kept, bound = [], set()
    for st in stmts:
        txt = [t.text for t in st]
        is_let = txt[0] == 'let'
        if is_let and any(x in PIPE for x in txt):
            k = 1
            if txt[k] == 'mut':
                k += 1
            bound.add(txt[k])
            continue
        kept.append(item.src[st[0].start:st[-1].end])
    # `sel` is the Option the final match inspects; the fallback unit is the other pipeline-bound name used there
    mtoks = {t.text for t in toks[m_at + 2:bc] if t.kind == 'ident'}
    fallback = [b for b in bound if b != sel and b in mtoks]
    if sel not in bound or len(fallback) != 1:
        raise LostAnchor(f'_fit: cannot identify the fallback unit and the selected unit of the pipeline (bound: {sorted(bound)})')
    tail = item.src[toks[m_at].start:toks[bc].end]
    pre = ''.join('        ' + k + '\n' for k in kept)
    return ('{\n' + pre + f'        let ({fallback[0]}, {sel}) = Self::_fit_select(amount); // R3: stands for the iterator pipeline (K-fit)\n        ' + tail)


class Emitter:
    def __init__(self, unit_name, contracts, lits=None):
        self.unit = unit_name
        self.contracts = contracts
        if lits is None:
            import gen_types
            lits = gen_types.Literals()
        self.lits = lits
        self.variant = None  # 'dec': contracts get their `requires_dec` clauses, obligations belong to C18 only
        self.sources = {}
        self.records = []   # functions under contract (for the evidence)
        self.rewrites = []  # list of applied rewrites

    def source(self, relpath):
        p = os.path.join(REPO, relpath)
        if p not in self.sources:
            if not os.path.exists(p):
                raise LostAnchor(f'{relpath} missing')
            self.sources[p] = Source(p)
        return self.sources[p]

    def marker(self, ob_id, props, kind, item=None, path=None, note=None):
        s = f'//@ob id={ob_id} props={",".join(props)} kind={kind}'
        if item is not None:
            l0, l1 = item.line_span()
            s += f' src={rel(path)}:{l0}-{l1} sha={item.body_sha()[:16] if item.body_open is not None else item.sha()[:16]}'
        if note:
            s += f' note={note}'
        return s

    def emit_extract(self, relpath, header, name, opts, indent='    '):
        src = self.source(relpath)
        item = src.member(header, name)
        alias = None
        rename = None
        r1_qty = None
        flags = set()
        for o in opts:
            if o.startswith('as='):
                alias = o[3:]
            elif o.startswith('R1='):
                r1_qty = o[3:]
            elif o.startswith('rename='):
                rename = o[7:]
            else:
                flags.add(o)
        container = alias or header
        if item.kw == 'const':
            return indent + item.text() + '\n'
        c = self.contracts.get(container, name) or {}
        props = c.get('props', [])
        if self.variant == 'dec':
            c = dict(c, requires=list(c.get('requires', [])) + list(c.get('requires_dec', [])))
            props = ['C18'] if 'C18' in props else []
        sig = rsparse.FnSig(item)
        out_name = name
        attrs = kept_attrs(item)
        body = item.body_text()
        if body is not None:
            # R6: amount literals (Amnt!(..) in the sources) become named constants
            import gen_types
            whole = gen_types.rewrite_literals(item, self.lits)
            body = whole[item.toks[item.body_open].start - item.start:]
        prefix = sig.prefix
        ret = sig.ret
        notes = []
        if 'R1' in flags:
            # transposition of Unit::as_qty into Quantity (trait cycle cut)
            if name != 'as_qty':
                raise LostAnchor('R1 flag only for as_qty')
            out_name = 'unit_as_qty'
            prefix = 'fn unit_as_qty(unit: Self::UnitType)'
            ret = 'Self'
            b2 = re.sub(r'<\s*Self\s*::\s*QuantityType\s+as\s+Quantity\s*>\s*::\s*', '<Self as Quantity>::', body)
            b2 = re.sub(r'Self\s*::\s*QuantityType\s*::\s*', 'Self::', b2)
            b2, n = re.subn(r'\*\s*self\b', 'unit', b2)
            if b2 == body or n != 1:
                raise LostAnchor('as_qty: body shape changed (R1)')
            body = b2
            notes.append('R1-transposed')
        demoted = None
        if 'R3fit' in flags:
            try:
                body = slice_fit(item)
                notes.append('R3-fit-sliced')
            except LostAnchor as e:
                # the function no longer has the shape the R3 slice knows: its contract is kept as an assumption, the
                # obligation is undecided here (K-fit decides the selection on the compiled function)
                demoted = str(e)
                body = '{ unimplemented!() }'
                notes.append('demoted:' + re.sub(r'[^A-Za-z0-9_.-]+', '_', demoted)[:80])
        if rename:
            new_prefix, n = re.subn(r'\bfn\s+%s\b' % re.escape(name), 'fn ' + rename, prefix, count=1)
            if n != 1:
                raise LostAnchor(f'{name}: cannot rename')
            prefix = new_prefix
            out_name = rename
            notes.append('R4-renamed')
        if r1_qty:
            body, n = rewrite_as_qty_calls(body, r1_qty)
            if n != 1:
                raise LostAnchor(f'{name}: expected exactly one `.as_qty()` call, found {n}')
            notes.append('R1-as_qty-call')
        ob_id = f'{self.unit}:{container}::{out_name}'
        kind = 'exec' if body is not None else 'decl'
        if demoted:
            kind = 'demoted'
        lines = [indent + self.marker(ob_id, props, kind, item, src.path, '+'.join(notes) if notes else None)]
        if demoted:
            lines.append(indent + '#[verifier::external_body] // demoted: ' + demoted)
        for a in attrs:
            lines.append(indent + a)
        head = prefix
        if ret is not None:
            head += f' -> (r: {ret})' if c.get('ret') else f' -> {ret}'
        if sig.where:
            head += ' ' + sig.where
        text = indent + head + '\n' + fmt_clauses(c, indent + '    ')
        if body is None:
            text = text.rstrip('\n')
            if text.endswith(','):
                text = text[:-1]
            text += ';\n'
        else:
            text += indent + body + '\n'
        l0, l1 = item.line_span()
        self.records.append({
            'obligation': ob_id, 'function': f'{container}::{name}', 'file': rel(src.path),
            'lines': [l0, l1], 'sha256_body': item.body_sha() if body is not None else item.sha(),
            'props': props, 'rewrites': notes,
            'contract': {k: c[k] for k in ('requires', 'ensures') if k in c},
        })
        return '\n'.join(lines) + '\n' + text

    def render(self, fragment, subst=None, quantity_defaults=False):
        """Expand one contracts/*.vrs fragment."""
        text = open(os.path.join(CONTRACTS, fragment)).read()
        out = []
        for line in text.split('\n'):
            s = line.strip()
            if s.startswith('//@extract '):
                parts = [p.strip() for p in s[len('//@extract '):].split('|')]
                relpath, header, name, opts = parts[0], parts[1], parts[2], parts[3:]
                indent = line[:len(line) - len(line.lstrip())]
                out.append(self.emit_extract(relpath, header, name, opts, indent).rstrip('\n'))
            elif s == '//@quantity_defaults':
                if quantity_defaults == 'renamed':
                    # R4: in files that also hold HasRefUnit the five methods are kept under the names q_<name>
                    # (same bodies, same contracts), so that a generated impl that delegates to
                    # `<Self as Quantity>::eq` instead of `<Self as HasRefUnit>::eq` is verified, not rejected
                    for fn in ('eq', 'partial_cmp', 'add', 'sub', 'div'):
                        out.append(self.emit_extract('src/lib.rs', 'trait Quantity', fn, ['rename=q_' + fn], '    ').rstrip('\n'))
                elif quantity_defaults:
                    for fn in ('eq', 'partial_cmp', 'add', 'sub', 'div'):
                        out.append(self.emit_extract('src/lib.rs', 'trait Quantity', fn, [], '    ').rstrip('\n'))
            elif s.startswith('//@include '):
                out.append(self.render(s[len('//@include '):].strip(), subst, quantity_defaults))
            else:
                out.append(line)
        res = '\n'.join(out)
        for k, v in (subst or {}).items():
            res = res.replace(k, v)
        return res


F64_SUBST = {'OPREQ_add': 'true', 'OPREQ_sub': 'true', 'OPREQ_mul': 'true', 'OPREQ_div': 'true',
             'RATEREQ_mul': 'like_div_ok::<PQ>()'}


def mark_lemmas(text, unit):
    """Put an //@ob marker in front of every `proof fn lemma_Cxx_...` that has none."""
    out = []
    lines = text.split('\n')
    for i, line in enumerate(lines):
        m = re.match(r'\s*(?:pub\s+)?(?:broadcast\s+)?proof fn (lemma_(C\d\d)(?:_(C\d\d))?_\w+)', line)
        if m and not (out and out[-1].strip().startswith('//@ob ')):
            props = [p for p in (m.group(2), m.group(3)) if p]
            out.append(line[:len(line) - len(line.lstrip())] + f'//@ob id={unit}:{m.group(1)} props={",".join(props)} kind=lemma')
        out.append(line)
    return '\n'.join(out)


def wrap(body):
    return open(os.path.join(CONTRACTS, 'prelude.vrs')).read() + 'verus! {\n\n' + body + '\n\n} // verus!\nfn main() {}\n'


def gen_quantity(subst=F64_SUBST):
    """U1: Quantity's default methods (types without reference unit), Rate."""
    em = Emitter('gen_quantity', Contracts('generic.toml'))
    parts = [em.render('shim_m0.vrs', subst),
             em.render('traits_core.vrs', subst, quantity_defaults=True),
             em.render('rate.vrs', subst),
             em.render('lemmas_quantity_m0.vrs', subst)]
    parts.insert(1, em.lits.decls())
    text = mark_lemmas(wrap('\n\n'.join(parts)), em.unit)
    return text, em


def gen_hasref(subst=F64_SUBST, extra=()):
    """U2: HasRefUnit's default methods, One / AmountT as quantity, M0 lemmas."""
    em = Emitter('gen_hasref', Contracts('generic.toml'))
    parts = [em.render('shim_m0.vrs', subst),
             em.render('traits_core.vrs', subst),
             em.render('hasref_specs.vrs', subst),
             em.render('trait_hasref.vrs', subst),
             em.render('one_amount.vrs', subst),
             em.render('one_hasref.vrs', subst),
             em.render('derived_specs.vrs', subst),
             em.render('lemmas_hasref_m0.vrs', subst),
             em.render('lemmas_derived_m0.vrs', subst)]
    for f in extra:
        parts.append(em.render(f, subst))
    parts.insert(1, em.lits.decls())
    text = mark_lemmas(wrap('\n\n'.join(parts)), em.unit)
    return text, em


DEC_SUBST = {'OPREQ_add': 'ok_add(self, rhs)', 'OPREQ_sub': 'ok_sub(self, rhs)', 'OPREQ_mul': 'ok_mul(self, rhs)',
             'OPREQ_div': 'ok_div(self, rhs)', 'RATEREQ_mul': 'rate_mul_ok::<TQ, PQ>(self, rhs)'}


def gen_hasref_decok():
    """C18, decimal configuration: HasRefUnit's default methods with the operator preconditions of fpdec switched
    on (Layer A-dec: each method performs only the operations named by its `*_ok` predicate) and the range lemmas
    (Layer B-dec: the property's range conditions imply those predicates under the stated fpdec contract)."""
    em = Emitter('gen_hasref_decok', Contracts('generic.toml'))
    em.variant = 'dec'
    parts = [em.render(f, DEC_SUBST) for f in ('shim_m0.vrs', 'traits_core.vrs', 'hasref_specs.vrs', 'trait_hasref.vrs',
                                                 'dec_ok_specs.vrs', 'derived_specs.vrs', 'm1_dec.vrs', 'lemmas_c18_dec.vrs',
                                                 'lemmas_c18_dec_derived.vrs', 'rate.vrs', 'lemmas_c18_dec_rate.vrs')]
    parts.insert(1, em.lits.decls())
    text = mark_lemmas(wrap('\n\n'.join(parts)), em.unit)
    return text, em


def context_only(text):
    """extracted bodies that are obligations of another unit (gen_hasref): the marker stays, so that a diagnostic inside
    the body is attributed to it, but it belongs to no property here.  (Turning these bodies into external_body was
    tried: Z3 then diverged on one of the non-linear lemmas - the bodies stay as they are.)"""
    return '\n'.join(re.sub(r' props=\S* kind=demoted', ' props= kind=demoted', re.sub(r' props=\S* kind=exec', ' props= kind=context', l))
                     if l.strip().startswith('//@ob ') else l
                     for l in text.split('\n'))


def gen_m1_f64(subst=F64_SUBST):
    """Layer-B lemmas over the M1-f64 rounding model (contracts re-stated on the same spec functions)"""
    em = Emitter('lemmas_m1_f64', Contracts('generic.toml'))
    parts = [em.render(f, subst) for f in ('shim_m0.vrs', 'traits_core.vrs', 'hasref_specs.vrs', 'trait_hasref.vrs',
                                           'derived_specs.vrs', 'lemmas_derived_m0.vrs', 'm1_f64.vrs', 'lemmas_m1_f64.vrs')]
    parts.insert(1, em.lits.decls())
    text = mark_lemmas(wrap('\n\n'.join(parts)), em.unit)
    # the extracted bodies in this file are context only (they are obligations of gen_hasref)
    text = context_only(text)
    em.records = []
    return text, em


def gen_m1_dec(subst=F64_SUBST):
    """Layer-B lemmas over the M1-dec rounding model (fpdec::Decimal)"""
    em = Emitter('lemmas_m1_dec', Contracts('generic.toml'))
    parts = [em.render(f, subst) for f in ('shim_m0.vrs', 'traits_core.vrs', 'hasref_specs.vrs', 'trait_hasref.vrs',
                                           'derived_specs.vrs', 'lemmas_derived_m0.vrs', 'm1_dec.vrs', 'lemmas_m1_dec.vrs')]
    parts.insert(1, em.lits.decls())
    text = mark_lemmas(wrap('\n\n'.join(parts)), em.unit)
    text = context_only(text)
    em.records = []
    return text, em


if __name__ == '__main__':
    which = sys.argv[1]
    text, em = {'quantity': gen_quantity, 'hasref': gen_hasref, 'm1': gen_m1_f64, 'm1dec': gen_m1_dec, 'decok': gen_hasref_decok}[which]()
    sys.stdout.write(text)
