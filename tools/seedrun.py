#!/usr/bin/env python3
"""usage: seedrun.py <seed-name> [props...]
Applies /verif/seeded/<seed>/patch.diff to /repo, runs ./check for the given properties (default:
the property the seed breaks), undoes the change straight afterwards, records the outcome in meta.json."""
import json
import os
import subprocess
import sys
import time

VERIF = os.path.dirname(os.path.dirname(os.path.abspath(__file__)))


def sh(cmd, **kw):
    return subprocess.run(cmd, shell=True, capture_output=True, text=True, **kw)


def main():
    seed = sys.argv[1]
    d = os.path.join(VERIF, 'seeded', seed)
    meta_p = os.path.join(d, 'meta.json')
    meta = json.load(open(meta_p)) if os.path.exists(meta_p) else {'seed': seed}
    props = sys.argv[2:] or [meta['breaks_property']]
    st = sh('git -C /repo status --porcelain --untracked-files=no').stdout.strip()
    if st:
        print('refusing: /repo has local changes:\n' + st)
        return 2
    r = sh(f'git -C /repo apply {d}/patch.diff')
    if r.returncode != 0:
        print('patch does not apply:', r.stderr)
        return 2
    results = meta.setdefault('checks', {})
    try:
        for p in props:
            t0 = time.time()
            r = sh(f'./check {p} --tier quick', cwd=VERIF)
            viol = [l for l in r.stdout.split('\n') if l.startswith('VIOLATION')]
            results[p] = {'exit': r.returncode, 'violations': len(viol), 'first': viol[:3],
                          'wall_s': round(time.time() - t0, 1), 'summary': r.stdout.strip().split('\n')[-1][:300],
                          'stderr': r.stderr.strip()[-600:] if r.returncode == 2 else ''}
            print(seed, p, 'exit', r.returncode, 'violations', len(viol), results[p]['summary'])
            for v in viol[:3]:
                print('   ', v)
            if r.returncode == 2:
                print(r.stderr[-800:])
    finally:
        sh('git -C /repo checkout -- .')
    meta['caught_by'] = sorted(p for p, v in results.items() if v['exit'] == 1)
    json.dump(meta, open(meta_p, 'w'), indent=1)
    return 0


if __name__ == '__main__':
    sys.exit(main())
