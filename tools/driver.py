import json
import os
import re
import sys
import time

sys.path.insert(0, os.path.dirname(os.path.abspath(__file__)))
import common
from common import Undecided, VERIF, EVIDENCE, REPLAY_DIR, write_json
import vrunner
import units
import props as P


def load_known():
    p = os.path.join(VERIF, 'known_findings.json')
    if not os.path.exists(p):
        return {'findings': [], 'fixed': []}
    return json.load(open(p))


def scan_assumptions(text):
    """mechanical scan of a generated Verus file for unproved things"""
    out = {}
    for kw in ('external_body', 'assume(', 'admit(', 'assume_specification', 'axiom fn', 'uninterp spec fn'):
        n = text.count(kw)
        if n:
            out[kw] = n
    return out


def usage():
    print(__doc__ or 'usage: check <Cxx> [--tier quick|thorough] [--no-cache]')
    return 2


def main(argv):
    if not argv:
        print('usage: check <Cxx> [--tier quick|thorough] [--no-cache] | --replay <file>')
        return 2
    if argv[0] == '--replay':
        import replay
        return replay.replay_file(argv[1])
    prop = argv[0]
    tier = os.environ.get('VERIF_TIER') or 'quick'
    i = 1
    only_units = None
    while i < len(argv):
        if argv[i] == '--tier':
            tier = argv[i + 1]
            i += 2
        elif argv[i] == '--no-cache':
            os.environ['VERIF_NO_CACHE'] = '1'
            i += 1
        elif argv[i] == '--units':
            only_units = argv[i + 1].split(',')
            i += 2
        else:
            print(f'unknown argument {argv[i]}')
            return 2
    if tier not in ('quick', 'thorough'):
        tier = 'quick'
    seed = int(os.environ.get('VERIF_SEED', '0') or 0)
    if prop not in P.PROPS:
        print(f'property {prop} is not claimed (see MANIFEST.json not_applicable)')
        return 2
    t0 = time.time()
    spec = P.PROPS[prop]
    unit_names = list(spec['quick'])
    if tier == 'thorough':
        unit_names += [u for u in spec.get('thorough', []) if u not in unit_names]
    if any(not u.startswith('kani_') for u in unit_names) and 'canary_m0' not in unit_names:
        unit_names.append('canary_m0')     # vacuity guard of the amount shim's axiom group (every Verus unit rests on it)
    if only_units:
        unit_names = [u for u in unit_names if u in only_units]
    known = load_known()
    results = []
    undecided = []
    try:
        results = units.run_units(unit_names, prop, tier, seed)
    except Undecided as e:
        undecided.append({'unit': '?', 'reason': str(e)})
    obligations = []
    failures = []
    functions = []
    kani_functions = {}
    backends = {}
    assumptions = list(spec.get('assumptions', [])) + list(P.TRUSTED_BASE)
    bounds = []
    cmds = []
    for r in results:
        be = backends.setdefault(r['engine'], {'units': [], 'obligations': 0, 'discharged': 0, 'solver_s': 0.0, 'wall_s': 0.0})
        be['units'].append({'unit': r['name'], 'cached': r.get('cached', False), 'wall_s': r.get('wall_s', 0)})
        be['solver_s'] = round(be['solver_s'] + r.get('solver_s', 0.0), 3)
        be['wall_s'] = round(be['wall_s'] + r.get('wall_s', 0.0), 2)
        cmds.append(r.get('cmd', ''))
        for u in r.get('undecided', []):
            # an undecided diagnostic matters if it is about this property's obligations or unattributed
            if u.get('props') is not None and prop not in u['props']:
                continue      # a demoted function that carries no obligation of this property
            undecided.append({'unit': r['name'], 'reason': u.get('reason', ''), 'detail': (u.get('rendered') or u.get('stderr') or '')[:1500]})
        failed_ids = {}
        for f in r.get('failures', []):
            failed_ids.setdefault(f['obligation'], []).append(f)
        n_here = 0
        for o in r.get('obligations', []):
            if prop not in o['props']:
                continue
            if o['kind'] in ('decl', 'demoted'):
                continue      # demoted: reported through the unit's undecided entries, never counted as discharged
            n_here += 1
            ok = o['id'] not in failed_ids
            if o['kind'] == 'canary':
                # must fail; if it verifies the assumptions are inconsistent
                if ok and not r.get('undecided'):
                    undecided.append({'unit': r['name'], 'reason': f'vacuity canary {o["id"]} verified: assumption set inconsistent'})
                continue
            obligations.append({'id': o['id'], 'engine': r['engine'], 'ok': ok, 'src': o.get('src'), 'kind': o['kind']})
            be['obligations'] += 1
            if ok:
                be['discharged'] += 1
            else:
                failures.append({'obligation': o['id'], 'engine': r['engine'], 'unit': r['name'], 'diags': failed_ids[o['id']], 'src': o.get('src'),
                                 'replay_hint': o.get('replay_hint')})
        for rec in r.get('records', []):
            if prop in rec.get('props', []):
                functions.append({k: rec[k] for k in ('obligation', 'function', 'file', 'lines', 'sha256_body', 'rewrites', 'contract') if k in rec and rec[k]})
        if r.get('kani_functions') and any(prop in o['props'] for o in r.get('obligations', [])):
            kani_functions.setdefault(r['name'], r['kani_functions'])
        for a in r.get('assumptions', []):
            if a not in assumptions:
                assumptions.append(a)
        for b in r.get('bounds', []):
            if b not in bounds:
                bounds.append(b)
        if r.get('scan'):
            be.setdefault('unproved_constructs_scan', {})[r['name']] = r['scan']
    # expected inventory
    missing = P.check_inventory(prop, obligations, tier)
    for m in missing:
        undecided.append({'unit': 'inventory', 'reason': f'expected obligation not generated: {m}'})

    # ----- verdict -----
    violations = []
    known_hits = []
    for f in failures:
        kf = next((k for k in known['findings'] if k['property'] == prop and k['obligation'] == f['obligation']), None)
        if kf:
            known_hits.append((kf, f))
        else:
            violations.append(f)
    import replay
    viol_lines = []
    n_k = 0
    for f in violations:
        if f['engine'] == 'kani':
            n_k += 1
            if n_k > 2:
                f = dict(f, skip_playback=True)   # counterexample playback for the first two Kani failures only
        path, found = replay.make_replay(prop, f, seed)
        viol_lines.append(f'VIOLATION property={prop} replay={path}' + ('' if found else ' no-failing-input-found'))
    still_known = set()
    for kf, f in known_hits:
        # a known finding must still reproduce with its recorded input; otherwise it is a new violation
        still = replay.known_still_fails(kf)
        if still:
            still_known.add(f['obligation'])
            print(f'KNOWN-FINDING: property={prop} {kf["what"]}')
        else:
            path, found = replay.make_replay(prop, f, seed)
            viol_lines.append(f'VIOLATION property={prop} replay={path}' + ('' if found else ' no-failing-input-found'))
    # a recorded finding is a refuted obligation, reported as such (KNOWN-FINDING line, `known_findings` below); it is not
    # part of what this run claims to have proved, so it is not counted among the obligations of the proof claim
    known_reported = [o for o in obligations if o['id'] in still_known and not o['ok']]
    obligations = [o for o in obligations if not (o['id'] in still_known and not o['ok'])]
    n_ob = len(obligations)
    n_ok = sum(1 for o in obligations if o['ok'])
    level = spec['level']
    cov = {
        'obligations': n_ob,
        'discharged': n_ok,
        'checker_cmd': ' ; '.join(sorted(set(c for c in cmds if c)))[:4000] or 'none',
        'trusted_base': spec.get('trusted_base', P.TRUSTED_BASE),
        'by_backend': backends,
        'functions_under_contract': functions,
        'functions_under_contract_count': len(functions),
        'bounded_parts': bounds,
        'kani_functions_under_contract': kani_functions,
        'samples': ([o for o in obligations if o['engine'] == 'verus'][:2] + [o for o in obligations if o['engine'] == 'kani'][:2]
                    + [f for f in functions if f.get('contract')][:2] + [o for o in obligations if not o['ok']][:5]),
        'failed_obligations': [{'obligation': f['obligation'], 'message': f['diags'][0]['message'] if f['diags'] else ''} for f in failures],
        'known_findings_hit': [k['obligation'] for k, _ in known_hits],
        'known_findings': [{'id': k.get('id'), 'obligation': k['obligation'], 'what': k['what'], 'input': k.get('input'),
                            'reproduced_on_real_code_this_run': True} for k, _ in known_hits if k['obligation'] in still_known],
        'refuted_obligations_not_counted': [o['id'] for o in known_reported],
        'undecided': undecided[:20],
        'tree_hash': common.tree_hash(),
        'exhaustive': False,
    }
    if n_ob == 0:
        undecided.append({'unit': 'inventory', 'reason': 'zero obligations generated (vacuous run)'})
    if still_known:
        assumptions.insert(0, 'NOT PROVED for this property: ' + str(len(still_known)) + ' obligation(s) are refuted - recorded known findings, reproduced on the real code by this run ('
                           + ', '.join(sorted(still_known)) + '); they are reported by KNOWN-FINDING lines and left out of the obligation count of the proof claim')
    ev = {
        'property_id': prop, 'tier': tier, 'seed': seed, 'level': level, 'coverage': cov,
        'assumptions': assumptions, 'wall_s': round(time.time() - t0, 2), 'violations': len(viol_lines),
    }
    if n_ob == 0:
        # keep the file schema-valid even for a broken run
        cov['obligations'] = 0
        ev['level'] = 'other'
        cov['explanation'] = 'run produced no obligations: ' + '; '.join(u['reason'] for u in undecided)[:500]
    write_json(os.path.join(EVIDENCE, f'{prop}.json'), ev)
    for v in viol_lines:
        print(v)
    print(f'{prop} [{tier}] obligations={n_ob} discharged={n_ok} known-findings={len(known_hits)} '
          f'violations={len(viol_lines)} undecided={len(undecided)} wall={ev["wall_s"]}s')
    if viol_lines:
        return 1
    if undecided:
        for u in undecided[:4]:
            print(f'UNDECIDED unit={u["unit"]}: {u["reason"][:400]}', file=sys.stderr)
            if u.get('detail'):
                print(u['detail'][:600], file=sys.stderr)
        if len(undecided) > 4:
            print(f'... and {len(undecided) - 4} more undecided entries (see the evidence file)', file=sys.stderr)
        return 2
    return 0
