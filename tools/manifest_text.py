SETUP_CMD = './setup.sh'
HOOKS = {
    'guard': 'none',
    'enable': 'no source hooks: contracts live in /verif and are attached to text extracted from /repo on every run (Verus) or wrapped around the compiled functions in a harness crate under /verif (Kani sets cfg(kani) there only)',
    'baseline_off_cmd': 'cd /repo && cargo test --workspace --no-fail-fast --offline',
    'source_commits': [],
    'add_only': True,
}
ENGINES = [
    {'name': 'verus', 'path': '/verif/tools/gen_verus.py', 'serves_properties': ['C01', 'C02', 'C03', 'C04', 'C05', 'C07', 'C08', 'C10', 'C13', 'C14', 'C18'],
     'kind_free_text': 'Verus 0.2026.09.13 on functions extracted mechanically from /repo (source slices and rustc -Zunpretty=expanded output) with requires/ensures from /verif/contracts'},
    {'name': 'kani', 'path': '/verif/tools/gen_kani.py', 'serves_properties': ['C01', 'C02', 'C03', 'C04', 'C05', 'C07', 'C08', 'C09', 'C10', 'C13', 'C14', 'C16', 'C18'],
     'kind_free_text': 'Kani 0.68 / CBMC 6.11 contract harnesses (assume pre; call; assert post) on the compiled crate, loop-free or constant-bound loops with unwinding assertions'},
]
NOTES = 'Contract-based deductive verification. ./check <id> re-extracts, re-generates and re-verifies from /repo\'s working tree; exit 2 = undecided (lost anchor / tool limit), never an alarm. See DESIGN.md.'

_V = 'Verus (Z3) function contracts on code extracted from the working tree'
CHECKS = {
    'C01': {'engine': 'verus+kani', 'design_ref': '5 C01', 'technique': 'deductive verification of function contracts (Verus) on extracted code; magnitude lemmas over explicit rounding models (binary64 relative, decimal absolute)',
            'level_text': 'Unbounded proof: ratio/equiv_amount/convert verified at trait level against exact functional contracts for every implementing type, unit and amount; the magnitude statement is a lemma over an explicit rounding model. A second line on the compiled crate: Kani harnesses with concrete amounts check the same normal forms bit for bit for the listed unit pairs (bounded stand-in, labelled bounded in the evidence; it decides when the extraction cannot take a changed function).',
            'level_note': 'Trusted: extraction rewrites R1-R7, M0/M1 amount models (standard model of f64 / fpdec operations), derived PartialEq structural, Verus+Z3.'},
    'C02': {'engine': 'verus+kani', 'design_ref': '5 C02', 'technique': 'deductive verification of function contracts (Verus); symmetry lemmas over uninterpreted amount operations whose axioms are proved for f64 by Kani; physical-order lemmas over rounding models',
            'level_text': 'Unbounded proof of the comparison contracts and of operand-order independence over an amount model that assumes no algebraic law rounding breaks. A second line on the compiled crate: Kani harnesses with concrete amounts check the same normal forms bit for bit for the listed unit pairs (bounded stand-in, labelled bounded in the evidence; it decides when the extraction cannot take a changed function).',
            'level_note': 'Trusted: as C01; <,<=,>,>=,!= are core default methods over partial_cmp/eq (A-std) - an overriding method in a generated impl is verified against vstd\'s specification of it.'},
    'C03': {'engine': 'verus+kani', 'design_ref': '5 C03', 'technique': 'deductive verification of function contracts (Verus); magnitude lemmas over rounding models',
            'level_text': 'Unbounded proof of add/sub/div contracts at trait level and per generated operator. A second line on the compiled crate: Kani harnesses with concrete amounts check the same normal forms bit for bit for the listed unit pairs (bounded stand-in, labelled bounded in the evidence; it decides when the extraction cannot take a changed function).',
            'level_note': 'Trusted: as C01.'},
    'C10': {'engine': 'verus+kani', 'design_ref': '5 C10', 'technique': 'deductive verification of function contracts (Verus) incl. unreachability of panic under the same-unit precondition; Kani should_panic harnesses',
            'level_text': 'Unbounded proof of Quantity::{eq,partial_cmp,add,sub,div} at trait level; per-type delegation verified on the expansion.',
            'level_note': 'Trusted: as C01.'},
}
CHECKS.update({
    'C04': {'engine': 'verus+kani', 'design_ref': '5 C04', 'technique': 'deductive verification of every generated derived operator against a functional spec (Verus, vstd MulSpecImpl/DivSpecImpl)',
            'level_text': 'Unbounded proof per generated operator impl (value and reference forms) that it equals the derived_mul/div normal form; _fit amount computation verified at trait level. A second line on the compiled crate: Kani harnesses with concrete amounts check the same normal forms bit for bit for the listed unit pairs (bounded stand-in, labelled bounded in the evidence; it decides when the extraction cannot take a changed function).',
            'level_note': 'Trusted: as C01; unit selection functions (unit_from_scale, _fit pipeline) abstracted here and proved per type by Kani (K-ufs, K-fit).'},
    'C05': {'engine': 'verus+kani', 'design_ref': '5 C05', 'technique': 'Verus lemmas over the derived normal form + Kani contract harnesses for unit_from_scale/_fit selection on the compiled crate',
            'level_text': 'Unbounded proof of the natural-unit / fitted-unit / reference-unit statements over the operator normal forms; selection contracts proved per type over all f64 bit patterns.',
            'level_note': 'Trusted: as C04; K-ufs/K-fit axioms are stated twice (Verus / Kani) under one id.'},
    'C07': {'engine': 'verus+kani', 'design_ref': '5 C07', 'technique': 'Verus obligations: every scale literal of the expanded scale() tables equals the chained published definition (independent table), exactly or within amount precision; Kani: name/symbol/si_prefix tables',
            'level_text': 'Every unit of every catalogue type (main crate f64 and decimal, astronomical crate) is an obligation of its own; exhaustive over the finite tables, discharged by the verifier over exact rationals.',
            'level_note': 'Trusted: spec/units.toml transcribes the published definitions; literal tokens parsed to exact rationals by the generator; Amnt!/Dec! convert a literal to the nearest amount value.'},
    'C08': {'engine': 'verus+kani', 'design_ref': '5 C08', 'technique': 'deductive verification of generated constructors, accessors and scalar operators (Verus)',
            'level_text': 'Unbounded proof per generated impl for arbitrary amounts of the abstract amount type (NaN, zeros, infinities included). A second line on the compiled crate: Kani harnesses with concrete amounts check the same normal forms bit for bit for the listed unit pairs (bounded stand-in, labelled bounded in the evidence; it decides when the extraction cannot take a changed function).',
            'level_note': 'Trusted: as C01.'},
    'C13': {'engine': 'verus+kani', 'design_ref': '5 C13', 'technique': 'deductive verification of Rate and the generated Rate operators (Verus)',
            'level_text': 'Unbounded proof: generic Rate functions, Mul<PQ> for Rate and every generated Mul<Rate>/Div<Rate> impl against functional specs; reciprocal lemmas. A second line on the compiled crate: Kani harnesses with concrete amounts check the same normal forms bit for bit for the listed unit pairs (bounded stand-in, labelled bounded in the evidence; it decides when the extraction cannot take a changed function).',
            'level_note': 'Trusted: as C01; as_qty transposed into Quantity (R1) and cross-checked by Kani.'},
})
CHECKS.update({
    'C09': {'engine': 'kani+verus', 'design_ref': '5 C09', 'technique': 'Kani contract harnesses on the compiled registry functions (iter, constants, REF_UNIT, as_qty, unit_from_scale/from_scale, from_symbol) per type; expected order computed from the current declarations by the stated rule',
            'level_text': 'Per type: loop-free / constant-bound harnesses with unwinding assertions; scale lookups over every f64 bit pattern; symbol lookups over every declared symbol (symbolic unit) and its one-character extensions / truncations. Arbitrary strings are bounded (thorough: concrete near misses).',
            'level_note': 'Trusted: Kani/CBMC; std iterator/String code is executed as compiled MIR; declaration parser of the generator; arbitrary-string lookups are not explored beyond the listed families (bounded).'},
    'C14': {'engine': 'kani', 'design_ref': '5 C14', 'technique': 'Kani contract harnesses on ConversionTable::convert with symbolic tables (N = 1, 2, 3, 4, 6, 9, 12 rows) and on TEMPERATURE_CONVERTER; Verus lemmas over the extracted table constants',
            'level_text': 'Selection contract (same unit -> identical value; first matching row; None iff no row) for every table of 1, 2, 3, 4, 6, 9 or 12 rows over symbolic units; the temperature table is total over all ordered pairs; data flow amount*factor+offset on a bounded value set.',
            'level_note': 'bounded: tables with more than 12 rows (and sizes 5, 7, 8, 10, 11) and the bit-exact affine map for arbitrary amounts are not covered by the quick tier; trusted: Kani/CBMC.'},
    'C16': {'engine': 'kani', 'design_ref': '5 C16', 'technique': 'Kani loop-free harnesses over all i8 exponents, every prefix row against the SI brochure table, iteration order, every valid UTF-8 abbreviation string of 0 to 3 bytes',
            'level_text': 'Exhaustive over the finite parts (256 exponents, 25 rows, every valid UTF-8 string of up to 3 bytes); complete proofs, no unwinding bound involved except the 25-element iteration.',
            'level_note': 'Trusted: spec/si_prefixes.toml transcribes the SI brochure; names are compared with the library\'s capitalised spelling; abbreviation strings longer than 3 bytes other than the table\'s own are not explored.'},
    'C18': {'engine': 'verus+kani', 'design_ref': '5 C18', 'technique': 'Verus: every extracted function verifies without a precondition other than the same-unit guard (all panic sites unreachable; a failed assert!/panic!/unwrap is a failed precondition); Kani: automatic panic checks on the compiled lookups, _fit, converter, like, derived and rate operators over all f64 bit patterns; decimal configuration: the generic HasRefUnit methods and Rate * q verified with fpdec operator preconditions switched on, and lemmas deriving those preconditions from the property\'s range conditions under a stated fpdec contract',
            'level_text': 'f64 configuration: unbounded proof for the arithmetic paths (Verus) and complete symbolic execution over all bit patterns for the iterator/unwrap paths (Kani). Decimal configuration: proof for the generic HasRefUnit methods (conversion, comparison, like arithmetic, _fit) under the assumed fpdec range contract; the generated derived operators are examined through their normal forms (natural-unit branch proved, fitted-unit branch refuted: known findings F4/F5, reproduced on the real code on every run); the rate application Rate * q is verified with those preconditions too and its range lemma proved (the generated forwarding operators q * rate, q / rate enter through their normal forms); formatting is not covered (stated in the evidence).',
            'level_note': 'Not covered: fmt paths (C15); per-type instantiation of the decimal preconditions of the generated rate operators. Known findings F4, F5 (known_findings.json): derived product / quotient overflow in the decimal configuration. Assumed: A-fpdec-range (an fpdec operation with operands and exact result within 1e20, divisor non-zero, does not panic). Kani checks "NaN on <op>" are IEEE results, not panics, and are excluded.'},
})
NOT_APPLICABLE = {
    'C06': 'quantifies over programs the type checker must reject; a function contract cannot state that an impl does not exist (DESIGN 7)',
    'C11': 'quantifies over arbitrary proc-macro inputs (syn token trees); parse/analyze/codegen are outside Verus\' subset and not symbolically executable by CBMC (DESIGN 7)',
    'C12': 'same code as C11; the observable is a compiler diagnostic from proc_macro_error::abort!, not a function result (DESIGN 7)',
    'C15': 'thin wrappers over core::fmt and float/decimal-to-text conversion; no verifier here models core::fmt, stubbing it removes what the property states (DESIGN 7)',
    'C17': 'behaviour is that of serde_derive/serde_json/fpdec text codecs (dependencies); no repository function to put under contract (DESIGN 7)',
    'C19': 'a property of the Cargo feature lattice / cfg gates decided by cargo check per configuration, not by any contract (DESIGN 7)',
    
    
}
