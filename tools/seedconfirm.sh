#!/bin/bash
# usage: seedconfirm.sh <seed-name> <property> <dir with mutant.diff, tests/seeded_demo.rs, NOTES.md> [demo features]
# Confirms a seeded change in a fresh scratch worktree (outside /repo and /verif): it applies, the
# pinned suite still passes, the demonstration fails with it and passes without it.  Then copies
# it to /verif/seeded/<seed-name>/ .  Removes the scratch worktree afterwards.
set -u
NAME=$1; PROP=$2; SRC=$3; FEAT=${4:-doc}; WHERE=${5:-main}
OUT=/verif/seeded/$NAME
WT=/tmp/confirm_$NAME
mkdir -p "$OUT"
cp "$SRC/mutant.diff" "$OUT/patch.diff"
if [ "$WHERE" = astro ]; then cp "$SRC/astronimical_quantities/tests/seeded_demo.rs" "$OUT/seeded_demo.rs"; DEMO_DST=astronimical_quantities/tests/seeded_demo.rs; DEMO_CMD="cargo test --offline -p astronomical-quantities --test seeded_demo"; else cp "$SRC/tests/seeded_demo.rs" "$OUT/seeded_demo.rs"; DEMO_DST=tests/seeded_demo.rs; DEMO_CMD="cargo test --offline --features $FEAT --test seeded_demo"; fi
[ -f "$SRC/NOTES.md" ] && cp "$SRC/NOTES.md" "$OUT/NOTES.agent.md"
git -C /repo worktree remove --force "$WT" 2>/dev/null
git -C /repo worktree add -q "$WT" HEAD || exit 2
cd "$WT" || exit 2
export CARGO_NET_OFFLINE=true
LOG=$OUT/confirm.log
: > "$LOG"
git apply "$OUT/patch.diff" >>"$LOG" 2>&1 || { echo "patch does not apply" | tee -a "$LOG"; exit 2; }
echo "== pinned suite WITH the change" >>"$LOG"
cargo test --workspace --no-fail-fast --offline > "$OUT/suite.out" 2>&1
grep -E "^test result|FAILED|failed|^error" "$OUT/suite.out" >>"$LOG"
SUITE_FAILS=$(grep -E "^test [^ ]+ \.\.\. FAILED" "$OUT/suite.out" | grep -v "macro_attr_tests::ui" | wc -l)
PASSED=$(grep -E "^test result" "$OUT/suite.out" | sed -E 's/.* ([0-9]+) passed.*/\1/' | paste -sd+ | bc)
echo "suite: passed=$PASSED (baseline 65 stable + doc tests)" >>"$LOG"
rm -f "$OUT/suite.out"
mkdir -p "$(dirname $DEMO_DST)"; cp "$OUT/seeded_demo.rs" "$DEMO_DST"
echo "== demo WITH the change (features: $FEAT)" >>"$LOG"
$DEMO_CMD 2>&1 | grep -E "^test |^test result|^error" >>"$LOG"
$DEMO_CMD >/dev/null 2>&1; WITH=$?
git apply -R "$OUT/patch.diff"
echo "== demo WITHOUT the change" >>"$LOG"
$DEMO_CMD 2>&1 | grep -E "^test |^test result|^error" >>"$LOG"
$DEMO_CMD >/dev/null 2>&1; WITHOUT=$?
cd /
git -C /repo worktree remove --force "$WT"
echo "suite_new_failures=$SUITE_FAILS demo_with_change_rc=$WITH demo_without_change_rc=$WITHOUT" | tee -a "$LOG"
python3 - "$OUT" "$NAME" "$PROP" "$SUITE_FAILS" "$WITH" "$WITHOUT" "$FEAT" <<'EOF'
import json, sys, os
out, name, prop, sf, w, wo, feat = sys.argv[1:8]
meta = {'seed': name, 'breaks_property': prop,
        'confirmed': {'pinned_suite_new_failures_with_change': int(sf), 'demo_rc_with_change': int(w), 'demo_rc_without_change': int(wo)},
        'ran': ['git apply patch.diff (fresh worktree of /repo HEAD)', 'cargo test --workspace --no-fail-fast --offline',
                f'cargo test --offline --features "{feat}" --test seeded_demo  (with and without the change)'],
        'valid': int(sf) == 0 and int(w) != 0 and int(wo) == 0}
p = os.path.join(out, 'meta.json')
old = json.load(open(p)) if os.path.exists(p) else {}
old.update(meta)
json.dump(old, open(p, 'w'), indent=1)
print(json.dumps(meta))
EOF
