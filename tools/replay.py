"""Replay of failed obligations against the real code (not a deciding step)."""
import json
import os
import re
import sys

sys.path.insert(0, os.path.dirname(os.path.abspath(__file__)))
from common import REPLAY_DIR, write_json


def safe(s):
    return re.sub(r'[^A-Za-z0-9_.-]+', '_', s)[:120]


def make_replay(prop, failure, seed):
    """Write evidence/replay/<prop>-<obligation>.json; returns (path, failing_input_found)."""
    path = os.path.join(REPLAY_DIR, f'{prop}-{safe(failure["obligation"])}.json')
    doc = {
        'property': prop, 'obligation': failure['obligation'], 'engine': failure['engine'], 'unit': failure['unit'],
        'source': failure.get('src'),
        'verifier_output': [d.get('rendered', d.get('message', '')) for d in failure.get('diags', [])],
        'failing_input': None,
    }
    found = False
    try:
        import replay_grid
        inp = replay_grid.search(prop, failure, seed)
        if inp:
            doc['failing_input'] = inp
            doc['reexecute'] = inp.get('cmd')
            found = True
    except ImportError:
        pass
    except Exception as e:  # replay is best effort, never decides
        doc['replay_error'] = str(e)
    write_json(path, doc)
    return path, found


def known_still_fails(kf):
    try:
        import replay_grid
        return replay_grid.known_still_fails(kf)
    except ImportError:
        return True


def replay_file(path):
    doc = json.load(open(path))
    print(json.dumps(doc, indent=1)[:4000])
    if doc.get('failing_input') and doc['failing_input'].get('cmd'):
        return os.system(doc['failing_input']['cmd']) >> 8
    return 0
