"""Replay of failed obligations against the real code (not a deciding step)."""
import json
import os
import re
import sys

sys.path.insert(0, os.path.dirname(os.path.abspath(__file__)))
from common import REPLAY_DIR, write_json


def safe(s):
    return re.sub(r'[^A-Za-z0-9_.-]+', '_', s)[:120]


def make_replay(prop, failure, seed):
    """Write evidence/replay/<prop>-<obligation>.json; returns (path, failing_input_found)."""
    path = os.path.join(REPLAY_DIR, f'{prop}-{safe(failure["obligation"])}.json')
    doc = {
        'property': prop, 'obligation': failure['obligation'], 'engine': failure['engine'], 'unit': failure['unit'],
        'source': failure.get('src'),
        'verifier_output': [d.get('rendered', d.get('message', '')) for d in failure.get('diags', [])],
        'failing_input': None,
    }
    found = False
    if failure.get('engine') == 'kani':
        try:
            inp = None if failure.get('skip_playback') else kani_playback(failure)
            if failure.get('skip_playback'):
                doc['note'] = 'counterexample playback is run for the first two failing harnesses of a check only'
            if inp:
                doc['failing_input'] = inp
                doc['reexecute'] = inp.get('cmd')
                found = inp.get('reproduced_on_real_code', False)
        except Exception as e:
            doc['replay_error'] = str(e)
        write_json(path, doc)
        return path, found
    try:
        import replay_grid
        inp = replay_grid.search(prop, failure, seed)
        if inp:
            doc['failing_input'] = inp
            doc['reexecute'] = inp.get('cmd')
            found = True
    except ImportError:
        pass
    except Exception as e:  # replay is best effort, never decides
        doc['replay_error'] = str(e)
    write_json(path, doc)
    return path, found


def kani_playback(failure):
    """Kani's counterexample for a failed harness, re-executed natively against the real code:
    `--concrete-playback=inplace` writes a #[test] with the concrete values into a scratch copy of the
    harness crate, `cargo kani playback` compiles it (path dependency on /repo) and runs it."""
    import shutil
    from common import run, BUILD
    m = re.match(r'kani_(\w+?):(\w+)::(\w+)$', failure['obligation'])
    if not m:
        return None
    cfg, fam, h = m.groups()
    src = os.path.join(BUILD, 'kani', cfg)
    dst = os.path.join(BUILD, 'kani', cfg + '-playback')
    shutil.rmtree(dst, ignore_errors=True)
    shutil.copytree(src, dst)
    tgt = os.path.join(BUILD, 'kani-target', cfg + '-playback')
    rc, out, err, _ = run(['cargo', 'kani', '--target-dir', tgt, '--harness', f'{fam}::{h}', '-Z', 'concrete-playback',
                           '--concrete-playback=inplace', '--output-format', 'terse'], cwd=dst, timeout=900)
    lib_path = os.path.join(dst, 'src', 'lib.rs')
    lib = open(lib_path).read()
    # two failed checks with the same concrete values make Kani write the same #[test] twice: keep the first
    seen = set()

    def dedupe(m):
        if m.group(2) in seen:
            return '\n'
        seen.add(m.group(2))
        return m.group(0)
    lib2 = re.sub(r'((?:\s*///[^\n]*\n)+)\s*#\[test\]\s*fn (kani_concrete_playback_\w+)\(\) \{.*?\n\s*\}\n', dedupe, lib, flags=re.S)
    if lib2 != lib:
        lib = lib2
        with open(lib_path, 'w') as f:
            f.write(lib)
    tests = re.findall(r'((?:\s*///[^\n]*\n)+)\s*#\[test\]\s*fn (kani_concrete_playback_%s_\d+)\(\) \{(.*?)\n\s*\}\n' % re.escape(h), lib, re.S)
    tests = [t for t in tests if 'Check for `cover`' not in t[0] and 'Check for `NaN`' not in t[0]]
    if not tests:
        return {'harness': f'{fam}::{h}', 'kani_output': (out + err)[-1500:], 'reproduced_on_real_code': False,
                'note': 'Kani produced no concrete values for the failed check'}
    doc, name, body = tests[0]
    rc2, out2, err2, _ = run(['cargo', 'kani', 'playback', '-Z', 'concrete-playback', '--', name], cwd=dst, timeout=900,
                             env={'CARGO_TARGET_DIR': tgt + '-native'})
    txt = out2 + err2
    failed = 'panicked at' in txt or 'test result: FAILED' in txt
    vals = re.findall(r'//\s*([^\n]+)\n\s*vec!\[([^\]]*)\]', body)
    return {'harness': f'{fam}::{h}', 'check': ' '.join(l.strip(' /') for l in doc.strip().split('\n'))[:400],
            'concrete_values': [{'as_printed_by_kani': a.strip(), 'bytes': b.strip()} for a, b in vals][:40],
            'native_run': '\n'.join(l for l in txt.split('\n') if 'panicked' in l or 'assertion' in l or 'test result' in l or 'Can\'t' in l)[:1500],
            'reproduced_on_real_code': failed,
            'what_fails': 'the harness assertion fails natively on the compiled /repo code with these inputs' if failed else 'native run did not fail',
            'cmd': f'(cd {dst} && CARGO_TARGET_DIR={tgt}-native cargo kani playback -Z concrete-playback -- {name})'}


def known_still_fails(kf):
    try:
        import replay_grid
        return replay_grid.known_still_fails(kf)
    except ImportError:
        return True


def replay_file(path):
    doc = json.load(open(path))
    print(json.dumps(doc, indent=1)[:4000])
    if doc.get('failing_input') and doc['failing_input'].get('cmd'):
        return os.system(doc['failing_input']['cmd']) >> 8
    return 0
