"""Run Verus on one generated file and attribute its verdicts to named obligations."""
import json
import os
import re
import sys

sys.path.insert(0, os.path.dirname(os.path.abspath(__file__)))
import rsparse
from common import run, sha, cache_get, cache_put, Undecided, BUILD

VERUS_VERSION = None
# messages with which Verus reports a failed proof obligation (a verdict, as opposed to a front-end error)
VERDICT = re.compile(r'postcondition not satisfied|precondition not satisfied|assertion failed|possible arithmetic (overflow|underflow)|'
                     r'possible division by zero|invariant not satisfied|panic|unreachable|index out of bounds|cannot show|decreases not satisfied|'
                     r'failed this|might fail|not satisfied')


def verus_version():
    global VERUS_VERSION
    if VERUS_VERSION is None:
        rc, out, err, _ = run(['verus', '--version'])
        VERUS_VERSION = (out + err).strip().split('\n')[0:2]
        VERUS_VERSION = ' '.join(x.strip() for x in VERUS_VERSION)
    return VERUS_VERSION


def _flatten_fns(items, out):
    for it in items:
        if it.kw == 'fn':
            out.append(it)
        elif it.kw in ('trait', 'impl', 'mod') and it.body_open is not None:
            _flatten_fns(it.children(), out)


def obligations_of(text):
    """[{id, props, kind, l0, l1, src, sha}] from the //@ob markers of a generated file."""
    try:
        toks = rsparse.tokenize(text)
    except rsparse.ParseError as e:
        raise Undecided(f'generated file does not tokenise: {e}')
    v = None
    for i in range(len(toks) - 2):
        if toks[i].text == 'verus' and toks[i + 1].text == '!' and toks[i + 2].text == '{':
            v = i + 2
            break
    if v is None:
        raise Undecided('no verus! block in generated file')
    close = rsparse.match_close(toks, v)
    fns = []
    _flatten_fns(rsparse.split_items(text, toks, v + 1, close), fns)
    spans = sorted(((text.count('\n', 0, f.start) + 1, text.count('\n', 0, f.end) + 1) for f in fns))
    obs = []
    lines = text.split('\n')
    for idx, line in enumerate(lines):
        s = line.strip()
        if not s.startswith('//@ob '):
            continue
        m = idx + 1
        kv = dict(p.split('=', 1) for p in s[6:].split(' ') if '=' in p and not p.startswith('id='))
        mid = re.search(r'id=(.*?) props=', s)
        ob = {'id': mid.group(1), 'props': [p for p in kv.get('props', '').split(',') if p],
              'kind': kv.get('kind', 'exec'), 'src': kv.get('src'), 'sha': kv.get('sha'), 'note': kv.get('note')}
        span = next((sp for sp in spans if sp[0] > m), None)
        if span is None or span[0] - m > 6:
            raise Undecided(f'marker without function at generated line {m}: {s}')
        ob['l0'], ob['l1'] = m, span[1]
        obs.append(ob)
    return obs


def _in_file(span, path):
    """the span itself if it lies in the generated file, else the macro call site in that file (a failed
    `assert!`/`panic!` is reported at core's macro definition with the call site in `expansion`)"""
    seen = 0
    while span is not None and seen < 16:
        if span.get('file_name') == path:
            return span
        span = (span.get('expansion') or {}).get('span')
        seen += 1
    return None


def demote(text, ob_id):
    """The function of obligation `ob_id` is outside the verifier's reach (front-end rejection): keep its signature and
    contract as an assumption (external_body, body dropped) so that the rest of the file can be verified, and mark the
    obligation `kind=demoted` - it is undecided, never discharged."""
    lines = text.split('\n')
    m = next((k for k, l in enumerate(lines) if l.strip().startswith('//@ob ') and f'id={ob_id} props=' in l), None)
    if m is None:
        return None
    head = '\n'.join(lines[:m + 1])
    rest = '\n'.join(lines[m + 1:])
    toks = rsparse.tokenize(rest)
    k = next((i for i, t in enumerate(toks) if t.kind == 'ident' and t.text == 'fn'), None)
    if k is None:
        return None
    # top-level brace groups after `fn`: the last one before the item ends is the body
    i, body = k, None
    while i < len(toks):
        t = toks[i]
        if t.kind == 'punct' and t.text in ('(', '[', '{'):
            c = rsparse.match_close(toks, i)
            if t.text == '{':
                body = (i, c)
                # the body is the group that is followed by another item / the end of the container
                nxt = toks[c + 1] if c + 1 < len(toks) else None
                if nxt is None or not (nxt.kind == 'punct' and nxt.text in (',', '&&', '||', '==', '.', ')', '=>', '{')):
                    break
            i = c + 1
            continue
        if t.kind == 'punct' and t.text == ';':
            return None      # a declaration without body
        i += 1
    if body is None:
        return None
    o, c = body
    ind = lines[m][:len(lines[m]) - len(lines[m].lstrip())]
    new_rest = rest[:toks[o].start] + '{ unimplemented!() }' + rest[toks[c].end:]
    head = head.replace(f'id={ob_id} props=', f'id={ob_id} props=', 1)
    hl = head.split('\n')
    hl[-1] = hl[-1].replace(' kind=exec', ' kind=demoted').replace(' kind=context', ' kind=demoted')
    return '\n'.join(hl) + '\n' + ind + '#[verifier::external_body] // demoted: outside the verifier\'s reach, contract assumed, obligation undecided\n' + new_rest


def run_verus(name, text, extra_args=(), timeout=400, rlimit=None):
    """Verify `text` (written to build/verus/<name>.rs).  Result is cached on the text hash."""
    key = 'verus-' + sha('r3' + text + verus_version() + ' '.join(extra_args))[:40]   # r<n>: revision of the diagnostic attribution below
    res = cache_get(key)
    d = os.path.join(BUILD, 'verus')
    os.makedirs(d, exist_ok=True)
    path = os.path.join(d, name + '.rs')
    tmp = path + f'.{os.getpid()}.tmp'
    with open(tmp, 'w') as f:
        f.write(text)
    os.replace(tmp, path)          # atomic: concurrent checks generate the same text for the same tree
    if res is not None:
        res['cached'] = True
        return res
    cmd = ['verus', path, '--output-json', '--time', '--error-format=json', '--multiple-errors', '8', '--num-threads', '8']
    if rlimit:
        cmd += ['--rlimit', str(rlimit)]
    cmd += list(extra_args)
    rc, out, err, wall = run(cmd, timeout=timeout)
    res = {'name': name, 'path': path, 'cmd': ' '.join(cmd), 'rc': rc, 'wall_s': round(wall, 2), 'cached': False,
           'failures': [], 'undecided': [], 'verified': 0, 'errors': 0, 'smt_ms': 0}
    try:
        j = json.loads(out[out.index('{'):]) if '{' in out else None
    except Exception:
        j = None
    diags = []
    for line in err.split('\n'):
        line = line.strip()
        if line.startswith('{') and '"$message_type"' in line:
            try:
                diags.append(json.loads(line))
            except Exception:
                pass
    if j is None:
        res['undecided'].append({'reason': 'verus produced no JSON result', 'stderr': err[-3000:]})
        return res
    vr = j.get('verification-results', {})
    res['verified'] = vr.get('verified', 0)
    res['errors'] = vr.get('errors', 0)
    tm = j.get('times-ms', {})
    res['smt_ms'] = (tm.get('smt', {}) or {}).get('total', 0) if isinstance(tm.get('smt'), dict) else 0
    res['total_ms'] = tm.get('total', 0)
    if vr.get('encountered-vir-error'):
        res['undecided'].append({'reason': 'verus rejected the generated file (vir error)',
                                 'stderr': '\n'.join(d.get('rendered', '') for d in diags if d.get('level') == 'error')[-4000:]})
    obs = obligations_of(text)
    for dg in diags:
        if dg.get('level') != 'error':
            continue
        msg = dg.get('message', '')
        if msg.startswith('aborting due to'):
            continue
        spans = [_in_file(s, path) for s in dg.get('spans', [])]
        spans = [s for s in spans if s is not None]
        cand = [s for s in spans if not (s.get('label') or '').startswith('failed')] or spans
        ob = None
        for s in cand:
            for o in obs:
                if o['l0'] <= s['line_start'] <= o['l1']:
                    ob = o
                    break
            if ob:
                break
        entry = {'message': msg, 'obligation': ob['id'] if ob else None,
                 'lines': [s['line_start'] for s in spans], 'rendered': dg.get('rendered', '')[:3000]}
        low = msg.lower()
        code = (dg.get('code') or {}).get('code') if isinstance(dg.get('code'), dict) else dg.get('code')
        is_verdict = code is None and VERDICT.search(low) is not None
        if ('rlimit' in low or 'resource limit' in low or 'timeout' in low) and ob is not None and ob['kind'] == 'canary':
            # a vacuity canary must NOT verify; running out of its (small) budget without deriving `false` is that
            res['failures'].append(entry)
        elif 'rlimit' in low or 'resource limit' in low or 'timeout' in low:
            res['undecided'].append(dict(entry, reason=msg))
        elif 'not supported' in low or 'unsupported' in low:
            res['undecided'].append(dict(entry, reason=msg, frontend=True, ob_kind=ob['kind'] if ob else None))
        elif not is_verdict:
            # rustc / Verus front-end rejected the generated text: construct outside the extractor's reach
            res['undecided'].append(dict(entry, reason='generated text rejected before verification (unsupported construct in '
                                         + (ob['id'] if ob else 'unattributed text') + '): ' + msg,
                                         frontend=True, ob_kind=ob['kind'] if ob else None))
        elif ob is None:
            if not vr.get('encountered-vir-error'):
                res['undecided'].append(dict(entry, reason='verifier error outside any named obligation: ' + msg))
        else:
            res['failures'].append(entry)
    if rc != 0 and not res['failures'] and not res['undecided']:
        res['undecided'].append({'reason': f'verus exit code {rc} without attributable diagnostics', 'stderr': err[-3000:]})
    if rc == 0 and res['errors'] == 0:
        pass
    res['obligations'] = obs
    cache_put(key, res)
    return res
