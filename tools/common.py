import hashlib
import json
import os
import subprocess
import time

VERIF = os.path.dirname(os.path.dirname(os.path.abspath(__file__)))
REPO = os.environ.get('VERIF_REPO', '/repo')
BUILD = os.path.join(VERIF, 'build')
CACHE = os.path.join(BUILD, 'cache')
EVIDENCE = os.path.join(VERIF, 'evidence')
REPLAY_DIR = os.path.join(EVIDENCE, 'replay')

TREE_DIRS = ['src', 'qty-macros', 'astronimical_quantities', 'Cargo.toml', 'Cargo.lock']


class Undecided(Exception):
    """tool limit / lost anchor / crash: exit 2, never an alarm"""


def sha(s):
    if isinstance(s, str):
        s = s.encode()
    return hashlib.sha256(s).hexdigest()


_tree_hash = None


def tree_hash():
    """SHA-256 over every file of the working tree that can influence the compiled crates."""
    global _tree_hash
    if _tree_hash is not None:
        return _tree_hash
    h = hashlib.sha256()
    for d in TREE_DIRS:
        p = os.path.join(REPO, d)
        if os.path.isfile(p):
            h.update(d.encode())
            h.update(open(p, 'rb').read())
            continue
        for root, dirs, files in sorted(os.walk(p)):
            dirs[:] = sorted(x for x in dirs if x not in ('target', '.git'))
            for f in sorted(files):
                fp = os.path.join(root, f)
                h.update(os.path.relpath(fp, REPO).encode())
                try:
                    h.update(open(fp, 'rb').read())
                except OSError:
                    pass
    _tree_hash = h.hexdigest()
    return _tree_hash


def run(cmd, cwd=None, timeout=None, env=None, stdin=None):
    e = dict(os.environ)
    e.setdefault('CARGO_NET_OFFLINE', 'true')
    if env:
        e.update(env)
    t0 = time.time()
    try:
        p = subprocess.run(cmd, cwd=cwd, env=e, timeout=timeout, capture_output=True, text=True, input=stdin)
        return p.returncode, p.stdout, p.stderr, time.time() - t0
    except subprocess.TimeoutExpired as ex:
        out = ex.stdout.decode() if isinstance(ex.stdout, bytes) else (ex.stdout or '')
        err = ex.stderr.decode() if isinstance(ex.stderr, bytes) else (ex.stderr or '')
        return -9, out, err + '\nTIMEOUT', time.time() - t0


def cache_get(key):
    p = os.path.join(CACHE, key + '.json')
    if os.environ.get('VERIF_NO_CACHE'):
        return None
    if os.path.exists(p):
        try:
            return json.load(open(p))
        except Exception:
            return None
    return None


def cache_put(key, val):
    os.makedirs(CACHE, exist_ok=True)
    p = os.path.join(CACHE, key + '.json')
    tmp = p + f'.{os.getpid()}.tmp'
    with open(tmp, 'w') as f:
        json.dump(val, f)
    os.replace(tmp, p)


def write_json(path, obj):
    os.makedirs(os.path.dirname(path), exist_ok=True)
    tmp = path + f'.{os.getpid()}.tmp'
    with open(tmp, 'w') as f:
        json.dump(obj, f, indent=1, sort_keys=False)
        f.write('\n')
    os.replace(tmp, path)
