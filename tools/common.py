import hashlib
import json
import os
import subprocess
import time

VERIF = os.path.dirname(os.path.dirname(os.path.abspath(__file__)))
REPO = os.environ.get('VERIF_REPO', '/repo')
BUILD = os.path.join(VERIF, 'build')
CACHE = os.path.join(BUILD, 'cache')
EVIDENCE = os.path.join(VERIF, 'evidence')
REPLAY_DIR = os.path.join(EVIDENCE, 'replay')

TREE_DIRS = ['src', 'qty-macros', 'astronimical_quantities', 'Cargo.toml', 'Cargo.lock']


class Undecided(Exception):
    """tool limit / lost anchor / crash: exit 2, never an alarm"""


def sha(s):
    if isinstance(s, str):
        s = s.encode()
    return hashlib.sha256(s).hexdigest()


_tree_hash = None


def tree_hash():
    """SHA-256 over every file of the working tree that can influence the compiled crates."""
    global _tree_hash
    if _tree_hash is not None:
        return _tree_hash
    h = hashlib.sha256()
    for d in TREE_DIRS:
        p = os.path.join(REPO, d)
        if os.path.isfile(p):
            h.update(d.encode())
            h.update(open(p, 'rb').read())
            continue
        for root, dirs, files in sorted(os.walk(p)):
            dirs[:] = sorted(x for x in dirs if x not in ('target', '.git'))
            for f in sorted(files):
                fp = os.path.join(root, f)
                h.update(os.path.relpath(fp, REPO).encode())
                try:
                    h.update(open(fp, 'rb').read())
                except OSError:
                    pass
    _tree_hash = h.hexdigest()
    return _tree_hash


def descendants(pid):
    """all live descendants of pid (solvers started by a tool in their own process groups)"""
    kids = {}
    for d in os.listdir('/proc'):
        if not d.isdigit():
            continue
        try:
            with open(f'/proc/{d}/stat') as f:
                st = f.read()
            ppid = int(st[st.rindex(')') + 2:].split()[1])
            kids.setdefault(ppid, []).append(int(d))
        except (OSError, ValueError, IndexError):
            continue
    out, todo = [], [pid]
    while todo:
        x = todo.pop()
        for k in kids.get(x, []):
            out.append(k)
            todo.append(k)
    return out


def run(cmd, cwd=None, timeout=None, env=None, stdin=None):
    e = dict(os.environ)
    e.setdefault('CARGO_NET_OFFLINE', 'true')
    if env:
        e.update(env)
    t0 = time.time()
    # own session, so that a timeout also stops the solvers a tool has spawned
    p = subprocess.Popen(cmd, cwd=cwd, env=e, stdin=subprocess.PIPE if stdin is not None else subprocess.DEVNULL,
                         stdout=subprocess.PIPE, stderr=subprocess.PIPE, text=True, start_new_session=True)
    try:
        out, err = p.communicate(input=stdin, timeout=timeout)
        return p.returncode, out, err, time.time() - t0
    except subprocess.TimeoutExpired:
        import signal
        victims = descendants(p.pid) + [p.pid]
        try:
            os.killpg(p.pid, signal.SIGKILL)
        except OSError:
            pass
        for v in victims:
            try:
                os.kill(v, signal.SIGKILL)
            except OSError:
                pass
        try:
            out, err = p.communicate(timeout=10)
        except Exception:
            out, err = '', ''
        return -9, out or '', (err or '') + '\nTIMEOUT', time.time() - t0


def cache_get(key):
    p = os.path.join(CACHE, key + '.json')
    if os.environ.get('VERIF_NO_CACHE'):
        return None
    if os.path.exists(p):
        try:
            return json.load(open(p))
        except Exception:
            return None
    return None


def cache_put(key, val):
    os.makedirs(CACHE, exist_ok=True)
    p = os.path.join(CACHE, key + '.json')
    tmp = p + f'.{os.getpid()}.tmp'
    with open(tmp, 'w') as f:
        json.dump(val, f)
    os.replace(tmp, p)


def write_json(path, obj):
    os.makedirs(os.path.dirname(path), exist_ok=True)
    tmp = path + f'.{os.getpid()}.tmp'
    with open(tmp, 'w') as f:
        json.dump(obj, f, indent=1, sort_keys=False)
        f.write('\n')
    os.replace(tmp, path)
