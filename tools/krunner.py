"""Builds the generated Kani harness crate of a configuration and runs one family of harnesses."""
import os
import re
import shutil
import sys
import threading

sys.path.insert(0, os.path.dirname(os.path.abspath(__file__)))
import common
from common import run, sha, cache_get, cache_put, Undecided, BUILD, REPO, VERIF

_kani_version = None
_locks = {}


def kani_version():
    global _kani_version
    if _kani_version is None:
        rc, out, err, _ = run(['cargo', 'kani', '--version'])
        _kani_version = (out + err).strip().split('\n')[0]
    return _kani_version


CARGO_TOML = '''[package]
name = "qkani"
version = "0.0.0"
edition = "2021"

[dependencies]
quantities = {{ path = "{repo}", features = [{feats}] }}
{extra}
[workspace]

[lints.rust]
unexpected_cfgs = {{ level = "allow", check-cfg = ['cfg(kani)'] }}
'''

# classes of failed checks that are NOT panics of the code under contract (DESIGN 2.2)
NOT_A_PANIC = re.compile(r'^NaN on (addition|subtraction|multiplication|division|negation)')
UNWIND = re.compile(r'unwinding assertion')


# the compiled functions each harness family puts under contract (per type unless noted)
FAMILY_FUNCTIONS = {
    'reg': ['Unit::iter', 'Quantity::iter_units', 'LinearScaledUnit::is_ref_unit', 'LinearScaledUnit::REF_UNIT', 'HasRefUnit::REF_UNIT',
            'generated unit constants', 'Unit::as_qty'],
    'ufs': ['HasRefUnit::unit_from_scale', 'LinearScaledUnit::from_scale'],
    'fit': ['HasRefUnit::_fit'],
    'cvt': ['HasRefUnit::convert', 'HasRefUnit::equiv_amount', 'LinearScaledUnit::ratio'],
    'cops': ['HasRefUnit::add', 'HasRefUnit::sub', 'HasRefUnit::div', 'HasRefUnit::eq', 'HasRefUnit::partial_cmp',
             'generated like operators, comparison operators, scalar operators and constructors'],
    'cderived': ['every generated derived Mul/Div (value form)'],
    'crt': ['impl Mul<PQ> for Rate', 'generated impl Mul<Rate<TQ, Self>>', 'generated impl Div<Rate<Self, PQ>>'],
    'tab': ['Unit::name', 'Unit::symbol', 'Unit::si_prefix (generated tables)'],
    'sym': ['Unit::from_symbol', 'Quantity::unit_from_symbol'],
    'symc': ['Unit::from_symbol', 'Quantity::unit_from_symbol'],
    'syma': ['Unit::from_symbol', 'Quantity::unit_from_symbol'],
    'symx': ['Unit::from_symbol', 'Quantity::unit_from_symbol'],
    'noref': ['Quantity::add', 'Quantity::sub', 'Quantity::div', 'Quantity::eq', 'Quantity::partial_cmp', 'generated operators of types without reference unit'],
    'total': ['HasRefUnit::convert', 'HasRefUnit::equiv_amount', 'HasRefUnit::eq', 'HasRefUnit::partial_cmp', 'HasRefUnit::add', 'HasRefUnit::sub',
              'HasRefUnit::div', 'generated scalar operators and constructors', 'Rate::new', 'Rate::from_qty_vals', 'Rate::reciprocal',
              'impl Mul<PQ> for Rate', 'generated impl Mul<Rate<TQ, Self>>', 'generated impl Div<Rate<Self, PQ>>'],
    'totald': ['every generated derived Mul/Div (value form)'],
    'conv': ['ConversionTable::convert', 'TEMPERATURE_CONVERTER'],
    'si': ['SIPrefix::from_exp', 'SIPrefix::from_abbr', 'SIPrefix::name', 'SIPrefix::abbr', 'SIPrefix::exp', 'SIPrefix::iter'],
    'si2': ['SIPrefix::from_abbr'],
    'm0': ['f64 ==, partial_cmp, / 1.0, * 1.0 (the M0 axioms of the amount shim, for the f64 back-end)'],
}


def write_crate(cfg, lib_text, feats, extra_deps=''):
    d = os.path.join(BUILD, 'kani', cfg)
    os.makedirs(os.path.join(d, 'src'), exist_ok=True)
    os.makedirs(os.path.join(d, '.cargo'), exist_ok=True)

    def put(rel, text):
        p = os.path.join(d, rel)
        if not os.path.exists(p) or open(p).read() != text:
            tmp = p + f'.{os.getpid()}.tmp'
            open(tmp, 'w').write(text)
            os.replace(tmp, p)
    put('Cargo.toml', CARGO_TOML.format(repo=REPO, feats=', '.join(f'"{f}"' for f in feats), extra=extra_deps))
    put('.cargo/config.toml', '[net]\noffline = true\n')
    put('src/lib.rs', lib_text)
    lock = os.path.join(REPO, 'Cargo.lock')
    if os.path.exists(lock):
        shutil.copyfile(lock, os.path.join(d, 'Cargo.lock'))
    return d


def parse_output(out):
    """terse -j output -> {harness: {'status', 'failed_checks': [...], 'covers': (sat,total), 'time'}}"""
    res = {}
    cur = {}          # thread -> harness name
    block = {}        # thread -> lines
    lines = out.split('\n')
    i = 0
    th = None
    single = None
    for line in lines:
        m = re.match(r'(?:Thread (\d+): )?Checking harness (\S+?)\.\.\.', line)
        if m:
            tid = m.group(1) or '0'
            cur[tid] = m.group(2)
            block[tid] = []
            single = tid if m.group(1) is None else None
            th = tid if m.group(1) is None else th
            continue
        m = re.match(r'Thread (\d+): ?$', line)
        if m:
            th = m.group(1)
            block[th] = []
            continue
        if th is None or th not in cur:
            continue
        block[th].append(line)
        if line.startswith('Verification Time:') or line.startswith('VERIFICATION:-') and False:
            pass
        if line.startswith('Verification Time:'):
            name = cur[th]
            b = block[th]
            txt = '\n'.join(b)
            st = re.search(r'VERIFICATION:- (\w+)', txt)
            fails = []
            for k, l in enumerate(b):
                if l.startswith('Failed Checks:'):
                    loc = b[k + 1].strip() if k + 1 < len(b) and b[k + 1].strip().startswith('File:') else ''
                    fails.append({'desc': l[len('Failed Checks:'):].strip(), 'loc': loc})
            cov = re.search(r'\*\* (\d+) of (\d+) cover properties satisfied', txt)
            res[name] = {'status': st.group(1) if st else 'UNKNOWN', 'failed_checks': fails,
                         'covers': (int(cov.group(1)), int(cov.group(2))) if cov else None,
                         'expected_panic': 'encountered one or more panics as expected' in txt,
                         'time_s': float(re.search(r'Verification Time: ([0-9.]+)s', line).group(1))}
    return res


def run_family(cfg, crate_dir, family, lib_text, meta, jobs=8, timeout=3000):
    """returns unit result dict for the driver"""
    key = 'kani-' + sha(lib_text + cfg + family + kani_version() + common.tree_hash())[:40]
    res = cache_get(key)
    name = f'kani_{cfg}:{family}'
    harnesses = {h: m for h, m in meta.items() if m['family'] == family}
    if res is None:
        lock = _locks.setdefault(cfg, threading.Lock())
        cmd = ['cargo', 'kani', '--target-dir', os.path.join(BUILD, 'kani-target', cfg), '-j', str(jobs),
               '--output-format', 'terse', '--harness', f'{family}::']
        import fcntl
        with lock:   # one cargo-kani invocation per harness crate at a time, also across processes
            with open(os.path.join(BUILD, 'kani', cfg + '.lock'), 'w') as lf:
                fcntl.flock(lf, fcntl.LOCK_EX)
                try:
                    res = cache_get(key)      # another process may have produced it while we waited
                    if res is not None:
                        return _finish(name, res, harnesses, cached=True)
                    rc, out, err, wall = run(cmd, cwd=crate_dir, timeout=timeout)
                finally:
                    fcntl.flock(lf, fcntl.LOCK_UN)
        res = {'cmd': f'(cd {crate_dir} && {" ".join(cmd)})', 'rc': rc, 'wall_s': round(wall, 2)}
        if rc == -9:
            res['undecided'] = [{'reason': f'kani family {family} timed out after {timeout}s'}]
            res['harness'] = parse_output(out)   # harnesses that finished before the timeout keep their verdict
            return _finish(name, res, harnesses, cached=False)
        parsed = parse_output(out)
        res['harness'] = parsed
        if not parsed:
            res['undecided'] = [{'reason': f'kani produced no harness results for {family} (harness crate does not compile?)',
                                 'stderr': (err[-2500:] + out[-1500:])}]
        else:
            cache_put(key, res)
        return _finish(name, res, harnesses, cached=False)
    return _finish(name, res, harnesses, cached=True)


def _finish(name, res, harnesses, cached):
    obs, fails, und = [], [], list(res.get('undecided', []))
    solver = 0.0
    bounds = []
    for h, m in sorted(harnesses.items()):
        short = h.split('::', 1)[1]
        r = res['harness'].get(h) or res['harness'].get('qkani::' + h)
        if r is None:
            # kani prints the fully qualified name; try suffix match
            r = next((v for k, v in res['harness'].items() if k.endswith('::' + h) or k.endswith(h)), None)
        ob = {'id': f'{name}::{short}', 'props': m['props'], 'kind': 'kani', 'src': 'compiled crate', 'note': m.get('note')}
        if m.get('bounded'):
            ob['bounded'] = m['bounded']
            bounds.append(f'{name}::{short}: {m["bounded"]}')
        obs.append(ob)
        if r is None:
            und.append({'reason': f'harness {h} produced no result'})
            continue
        solver += r.get('time_s', 0)
        real = [f for f in r['failed_checks'] if not NOT_A_PANIC.match(f['desc'])]
        unw = [f for f in real if UNWIND.search(f['desc'])]
        if unw:
            und.append({'reason': f'harness {h}: unwinding bound too small ({unw[0]["desc"]})'})
            continue
        if m.get('should_panic'):
            # must panic on every path that reaches the operation: Kani reports SUCCESSFUL (as expected) iff a panic was found;
            if r['status'] != 'SUCCESSFUL':
                fails.append({'obligation': ob['id'], 'message': 'expected panic did not occur (or another check failed)',
                              'rendered': str(r['failed_checks'])[:1500]})
            elif r['covers'] is None or r['covers'][0] != 0:
                # the cover placed after the operation must be unreachable: it never returns normally
                fails.append({'obligation': ob['id'], 'message': 'operation returns normally for some input instead of panicking',
                              'rendered': f'cover after the operation: {r["covers"]}'})
            continue
        if r['status'] == 'SUCCESSFUL' or (r['status'] == 'FAILED' and not real):
            if r['covers'] is not None and r['covers'][0] != r['covers'][1]:
                und.append({'reason': f'harness {h}: cover property unsatisfied {r["covers"]} (vacuous assumptions?)'})
            continue
        if r['status'] == 'FAILED':
            fails.append({'obligation': ob['id'], 'message': '; '.join(f['desc'] for f in real)[:300],
                          'rendered': '\n'.join(f'{f["desc"]}  {f["loc"]}' for f in real)[:2500]})
        else:
            und.append({'reason': f'harness {h}: status {r["status"]}'})
    return {'engine': 'kani', 'name': name, 'cmd': res.get('cmd', ''), 'cached': cached, 'wall_s': res.get('wall_s', 0),
            'solver_s': round(solver, 2), 'obligations': obs, 'failures': fails, 'undecided': und, 'records': [],
            'kani_functions': FAMILY_FUNCTIONS.get(name.split(':')[1], []), 'bounds': bounds, 'assumptions': ['Kani 0.68 / CBMC 6.11 / CaDiCaL; checks of class "NaN on <op>" are IEEE results, not panics, and are not counted (DESIGN 2.2)']}
