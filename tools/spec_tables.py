"""The independent definition table spec/units.toml: parser, exact evaluation, Verus text."""
import os
import re
import sys
import tomllib
from fractions import Fraction

sys.path.insert(0, os.path.dirname(os.path.abspath(__file__)))
from common import VERIF, Undecided

# rational enclosure of pi (50 digits)
PI_LO = Fraction('3.14159265358979323846264338327950288419716939937510')
PI_HI = Fraction('3.14159265358979323846264338327950288419716939937511')

_TOK = re.compile(r'\s*(?:(?P<num>[0-9]+(?:\.[0-9]+)?)|(?P<id>[A-Za-z_][A-Za-z0-9_]*(?:\.[A-Za-z_][A-Za-z0-9_]*)?)|(?P<op>[-+*/^()]))')


def load():
    with open(os.path.join(VERIF, 'spec', 'units.toml'), 'rb') as f:
        return tomllib.load(f)


def tokenize(s):
    pos, out = 0, []
    s = s.strip()
    while pos < len(s):
        m = _TOK.match(s, pos)
        if not m:
            raise ValueError(f'bad definition expression: {s!r} at {pos}')
        out.append((m.lastgroup, m.group(m.lastgroup)))
        pos = m.end()
    return out


class Parser:
    """expr := term (('+'|'-') term)* ; term := pow (('*'|'/') pow)* ; pow := atom ('^' int)?"""

    def __init__(self, toks):
        self.t, self.i = toks, 0

    def peek(self):
        return self.t[self.i] if self.i < len(self.t) else (None, None)

    def eat(self):
        x = self.t[self.i]
        self.i += 1
        return x

    def expr(self):
        n = self.term()
        while self.peek()[1] in ('+', '-'):
            op = self.eat()[1]
            n = (op, n, self.term())
        return n

    def term(self):
        n = self.pow()
        while self.peek()[1] in ('*', '/'):
            op = self.eat()[1]
            n = (op, n, self.pow())
        return n

    def pow(self):
        a = self.atom()
        if self.peek()[1] == '^':
            self.eat()
            k, v = self.eat()
            if k != 'num' or '.' in v:
                raise ValueError('exponent must be an integer literal')
            return ('^', a, int(v))
        return a

    def atom(self):
        k, v = self.eat()
        if k == 'num':
            return ('num', Fraction(v))
        if k == 'id':
            return ('pi',) if v == 'pi' else ('ref', v)
        if v == '(':
            n = self.expr()
            if self.eat()[1] != ')':
                raise ValueError('missing )')
            return n
        raise ValueError(f'unexpected token {v}')


def parse(s):
    p = Parser(tokenize(s))
    n = p.expr()
    if p.i != len(p.t):
        raise ValueError(f'trailing tokens in {s!r}')
    return n


class Table:
    def __init__(self, crate):
        self.crate = crate
        self.data = load().get(crate, {})
        self._val = {}

    def units(self, qty):
        return self.data.get(qty, {})

    def ast(self, qty, unit):
        d = self.data[qty][unit].get('def')
        return parse(d) if d is not None else None

    def resolve(self, qty, name):
        if '.' in name:
            q, u = name.split('.')
        else:
            q, u = qty, name
        if q not in self.data or u not in self.data[q]:
            raise ValueError(f'{self.crate}.{qty}: reference to unknown unit {name}')
        return q, u

    def interval(self, qty, unit, _stack=()):
        """(lo, hi) exact rational enclosure of the definition; lo == hi unless pi occurs"""
        key = (qty, unit)
        if key in self._val:
            return self._val[key]
        if key in _stack:
            raise ValueError(f'cyclic definition at {qty}.{unit}')
        r = self._ev(qty, self.ast(qty, unit), _stack + (key,))
        self._val[key] = r
        return r

    def _ev(self, qty, n, stack):
        k = n[0]
        if k == 'num':
            return (n[1], n[1])
        if k == 'pi':
            return (PI_LO, PI_HI)
        if k == 'ref':
            q, u = self.resolve(qty, n[1])
            return self.interval(q, u, stack)
        if k == '^':
            lo, hi = self._ev(qty, n[1], stack)
            return (lo ** n[2], hi ** n[2])      # all quantities here are positive
        a, b = self._ev(qty, n[1], stack), self._ev(qty, n[2], stack)
        if k == '+':
            return (a[0] + b[0], a[1] + b[1])
        if k == '-':
            return (a[0] - b[1], a[1] - b[0])
        if k == '*':
            return (a[0] * b[0], a[1] * b[1])
        if k == '/':
            return (a[0] / b[1], a[1] / b[0])
        raise ValueError(k)

    def has_pi(self, qty, unit, _seen=None):
        _seen = _seen or set()
        if (qty, unit) in _seen:
            return False
        _seen.add((qty, unit))

        def walk(n):
            if n[0] == 'pi':
                return True
            if n[0] == 'ref':
                q, u = self.resolve(qty, n[1])
                return self.has_pi(q, u, _seen)
            if n[0] == 'num':
                return False
            if n[0] == '^':
                return walk(n[1])
            return walk(n[1]) or walk(n[2])
        return walk(self.ast(qty, unit))

    def refs(self, qty, unit):
        out = []

        def walk(n):
            if n[0] == 'ref':
                out.append(self.resolve(qty, n[1]))
            elif n[0] == '^':
                walk(n[1])
            elif n[0] in ('+', '-', '*', '/'):
                walk(n[1])
                walk(n[2])
        walk(self.ast(qty, unit))
        return out

    def verus_expr(self, qty, n):
        """chained definition as a Verus `real` expression (pi-free definitions only)"""
        k = n[0]
        if k == 'num':
            f = n[1]
            return f'{f.numerator}real' if f.denominator == 1 else f'({f.numerator}real / {f.denominator}real)'
        if k == 'ref':
            q, u = self.resolve(qty, n[1])
            return f'defn_{q}_{u}()'
        if k == '^':
            base = self.verus_expr(qty, n[1])
            if n[1][0] == 'num':
                v = n[1][1] ** n[2]
                return f'{v.numerator}real' if v.denominator == 1 else f'({v.numerator}real / {v.denominator}real)'
            return '(' + ' * '.join([base] * n[2]) + ')'
        return f'({self.verus_expr(qty, n[1])} {k} {self.verus_expr(qty, n[2])})'


def terminating(fr):
    d = fr.denominator
    for p in (2, 5):
        while d % p == 0:
            d //= p
    return d == 1


def frac_digits(fr):
    """number of fractional decimal digits of a terminating fraction"""
    n = 0
    while fr.denominator != 1:
        fr *= 10
        n += 1
    return n


def sig_digits(fr):
    s = str(abs(fr.numerator * 10 ** frac_digits(fr) // fr.denominator)).strip('0')
    return len(s)
