#!/usr/bin/env python3
"""Pre-builds expansions, harness crates and replay binaries (optional; checks rebuild on demand)."""
import os, sys
sys.path.insert(0, os.path.dirname(os.path.abspath(__file__)))
import expand, units, replay_grid, common
for cfg in ('q_f64', 'q_dec', 'astro_f64'):
    try:
        expand.expanded(cfg)
    except Exception as e:
        print('warm: expansion', cfg, 'failed:', str(e)[:200])
try:
    d, text, meta = units.kani_crate('q_f64')
    # compile only (no harness matches this pattern -> kani still builds the crate)
    common.run(['cargo', 'kani', '--target-dir', os.path.join(common.BUILD, 'kani-target', 'q_f64'), '--only-codegen'], cwd=d, timeout=1200)
except Exception as e:
    print('warm: kani crate failed:', str(e)[:200])
for cfg in ('f64', 'dec'):
    try:
        replay_grid.build(cfg)
    except Exception as e:
        print('warm: replay', cfg, 'failed:', str(e)[:200])
