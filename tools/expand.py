"""rustc -Zunpretty=expanded of the current working tree (cached on the tree hash)."""
import os
import sys

sys.path.insert(0, os.path.dirname(os.path.abspath(__file__)))
import common
from common import run, Undecided, BUILD, REPO, VERIF

CONFIGS = {
    # name: (cwd, package, features, label)
    'q_f64': (REPO, 'quantities', 'doc', 'expanded:quantities[doc]'),
    'q_dec': (REPO, 'quantities', 'doc fpdec', 'expanded:quantities[doc,fpdec]'),
    'astro_f64': (REPO, 'astronomical-quantities', '', 'expanded:astronomical-quantities'),
    'fix_f64': (os.path.join(VERIF, 'fixtures'), 'qfixtures', '', 'expanded:fixtures'),
    'fix_dec': (os.path.join(VERIF, 'fixtures'), 'qfixtures', 'dec', 'expanded:fixtures[dec]'),
}

_mem = {}


def fixtures_hash():
    h = ''
    d = os.path.join(VERIF, 'fixtures', 'src')
    if os.path.isdir(d):
        for f in sorted(os.listdir(d)):
            h += common.sha(open(os.path.join(d, f), 'rb').read())
    return common.sha(h)


def expanded(cfg):
    if cfg in _mem:
        return _mem[cfg]
    cwd, pkg, feats, label = CONFIGS[cfg]
    key = common.sha(common.tree_hash() + cfg + (fixtures_hash() if cfg.startswith('fix') else ''))[:40]
    d = os.path.join(BUILD, 'expand')
    os.makedirs(d, exist_ok=True)
    path = os.path.join(d, f'{cfg}-{key}.rs')
    if not os.path.exists(path) or os.environ.get('VERIF_NO_CACHE'):
        cmd = ['cargo', '+nightly', 'rustc', '--offline', '-p', pkg, '--lib', '--profile', 'check',
               '--target-dir', os.path.join(BUILD, 'expand-target-' + cfg)]
        if feats:
            cmd += ['--features', feats]
        cmd += ['--', '-Zunpretty=expanded']
        rc, out, err, wall = run(cmd, cwd=cwd, timeout=1200)
        if rc != 0 or 'fn ' not in out:
            raise Undecided(f'expansion {cfg} failed (the tree does not compile in this configuration?): {err[-1500:]}')
        # drop stale expansions of this config
        for f in os.listdir(d):
            if f.startswith(cfg + '-') and f != os.path.basename(path):
                try:
                    os.remove(os.path.join(d, f))
                except OSError:
                    pass
        tmp = path + f'.{os.getpid()}.tmp'
        open(tmp, 'w').write(out)
        os.replace(tmp, path)
    _mem[cfg] = (open(path).read(), label)
    return _mem[cfg]
