"""Minimal Rust surface parser used by the extractor (python3 stdlib only).

It does not understand Rust; it tokenises (strings, chars, lifetimes, comments,
numbers, identifiers, punctuation) and splits a token range into *items* by
bracket matching.  Every item keeps the byte offsets of its pieces in the
original text, so that what the generator emits are slices of the text that
rustc compiled (or printed with -Zunpretty=expanded), never re-printed code.
"""
import re
import hashlib

_TOKEN_RE = re.compile(r'''
    (?P<ws>\s+)
  | (?P<lcomment>//[^\n]*)
  | (?P<bcomment>/\*.*?\*/)
  | (?P<rawstr>b?r(?P<hashes>\#*)"(?:.|\n)*?"(?P=hashes))
  | (?P<str>b?"(?:[^"\\]|\\.|\\\n)*")
  | (?P<lifetime>'[A-Za-z_][A-Za-z0-9_]*(?!'))
  | (?P<char>b?'(?:[^'\\]|\\(?:[^u]|u\{[0-9a-fA-F_]+\}))')
  | (?P<num>[0-9][0-9_]*\.(?![.A-Za-z_0-9])
           |[0-9][0-9_]*(?:\.[0-9][0-9_]*)?(?:[eE][+-]?[0-9_]+)?(?:[iuf][0-9]+|usize|isize)?)
  | (?P<ident>(?:r\#)?[A-Za-z_][A-Za-z0-9_]*)
  | (?P<punct>::|->|=>|==|!=|<=|>=|&&|\|\||\.\.=|\.\.\.|\.\.|[-+*/%^!&|=<>@.,;:\#$?~\\(){}\[\]])
''', re.X | re.S)

OPEN = {'(': ')', '[': ']', '{': '}'}
CLOSE = {')', ']', '}'}


class Tok:
    __slots__ = ('kind', 'text', 'start', 'end')

    def __init__(self, kind, text, start, end):
        self.kind, self.text, self.start, self.end = kind, text, start, end

    def __repr__(self):
        return f'{self.kind}:{self.text!r}'


class ParseError(Exception):
    pass


def tokenize(src, keep_comments=False):
    toks = []
    pos = 0
    n = len(src)
    while pos < n:
        m = _TOKEN_RE.match(src, pos)
        if not m:
            raise ParseError(f'cannot tokenise at byte {pos}: {src[pos:pos+40]!r}')
        kind = m.lastgroup
        if kind == 'hashes':
            kind = 'rawstr'
        if kind in ('ws',) or (kind in ('lcomment', 'bcomment') and not keep_comments):
            pos = m.end()
            continue
        toks.append(Tok(kind, m.group(0), m.start(), m.end()))
        pos = m.end()
    return toks


def match_close(toks, i):
    """toks[i] is an opening bracket; return index of its closing bracket."""
    depth = 0
    j = i
    while j < len(toks):
        t = toks[j]
        if t.kind == 'punct':
            if t.text in OPEN:
                depth += 1
            elif t.text in CLOSE:
                depth -= 1
                if depth == 0:
                    return j
        j += 1
    raise ParseError(f'unbalanced bracket at byte {toks[i].start}')


def skip_generics(toks, i):
    """toks[i] is '<'; return index just past the matching '>' (angle matching
    that ignores '->' and '=>' which are single tokens here)."""
    depth = 0
    j = i
    while j < len(toks):
        t = toks[j]
        if t.kind == 'punct':
            if t.text == '<':
                depth += 1
            elif t.text == '>':
                depth -= 1
                if depth == 0:
                    return j + 1
            elif t.text in OPEN:
                j = match_close(toks, j)
        j += 1
    raise ParseError('unbalanced <>')


SEMI_ONLY = {'const', 'static', 'type', 'use', 'extern', 'let'}
ITEM_KW = {'impl', 'fn', 'struct', 'enum', 'const', 'static', 'type', 'use',
           'mod', 'trait', 'macro_rules', 'extern', 'union'}
QUALIFIERS = {'pub', 'unsafe', 'async', 'default', 'open', 'closed', 'spec', 'proof',
              'exec', 'uninterp', 'broadcast'}


class Item:
    """One item: attrs (list of (start,end)), kw, name, header span, body span."""

    def __init__(self, src, toks, a0, i0, i1, kw, name):
        self.src = src
        self.toks = toks
        self.attr_first = a0      # index of first attribute token (== i0 if none)
        self.first = i0           # first token after attributes
        self.last = i1            # last token (inclusive)
        self.kw = kw
        self.name = name
        self.body_open = None     # token index of '{' opening the body
        self.body_close = None

    @property
    def start(self):
        return self.toks[self.first].start

    @property
    def start_with_attrs(self):
        return self.toks[self.attr_first].start

    @property
    def end(self):
        return self.toks[self.last].end

    def text(self, with_attrs=False):
        return self.src[(self.start_with_attrs if with_attrs else self.start):self.end]

    def header_text(self):
        """text from first token up to (excluding) the body '{' or the final ';'"""
        stop = self.toks[self.body_open].start if self.body_open is not None else self.toks[self.last].start
        return self.src[self.start:stop].strip()

    def header_norm(self):
        stop = self.body_open if self.body_open is not None else self.last
        return norm_tokens(self.toks[self.first:stop])

    def body_text(self):
        """text of the body including both braces"""
        if self.body_open is None:
            return None
        return self.src[self.toks[self.body_open].start:self.toks[self.body_close].end]

    def body_tokens(self):
        if self.body_open is None:
            return []
        return self.toks[self.body_open:self.body_close + 1]

    def attrs(self):
        """list of attribute texts (normalised) in front of the item"""
        out = []
        j = self.attr_first
        while j < self.first:
            if self.toks[j].text == '#':
                k = j + 1
                if self.toks[k].text == '!':
                    k += 1
                e = match_close(self.toks, k)
                out.append(norm_tokens(self.toks[j:e + 1]))
                j = e + 1
            else:
                j += 1
        return out

    def children(self):
        if self.body_open is None:
            return []
        return split_items(self.src, self.toks, self.body_open + 1, self.body_close)

    def line_span(self):
        return (self.src.count('\n', 0, self.start) + 1, self.src.count('\n', 0, self.end) + 1)

    def sha(self):
        return hashlib.sha256(norm_tokens(self.toks[self.first:self.last + 1]).encode()).hexdigest()

    def body_sha(self):
        return hashlib.sha256(norm_tokens(self.body_tokens()).encode()).hexdigest()


def norm_tokens(toks):
    return ' '.join(t.text for t in toks)


def split_items(src, toks, lo, hi):
    """Split toks[lo:hi] into items."""
    items = []
    i = lo
    while i < hi:
        a0 = i
        # attributes
        while i < hi and toks[i].text == '#':
            k = i + 1
            if toks[k].text == '!':
                k += 1
            if toks[k].text != '[':
                raise ParseError(f'bad attribute at byte {toks[i].start}')
            i = match_close(toks, k) + 1
        if i >= hi:
            break
        i0 = i
        # qualifiers
        j = i
        while j < hi:
            t = toks[j]
            if t.kind == 'ident' and t.text in QUALIFIERS:
                j += 1
                if j < hi and toks[j].text == '(' and toks[j - 1].text in ('pub', 'open'):
                    j = match_close(toks, j) + 1
                continue
            if t.kind == 'ident' and t.text == 'const' and j + 1 < hi and toks[j + 1].text in ('fn', 'unsafe'):
                j += 1
                continue
            if t.kind == 'ident' and t.text == 'extern' and j + 1 < hi and toks[j + 1].kind == 'str':
                j += 2
                continue
            break
        if j >= hi:
            raise ParseError(f'dangling qualifiers at byte {toks[i0].start}')
        kwt = toks[j]
        kw = kwt.text
        if kw not in ITEM_KW:
            # macro invocation item (e.g. `verus! { .. }`) or enum variant list
            # (caller handles enum bodies separately) -> treat up to ';' or
            # closing brace group as an opaque item
            kw = '?'
        name = None
        if kw in ('fn', 'struct', 'enum', 'const', 'static', 'type', 'mod', 'trait', 'union'):
            if j + 1 < hi and toks[j + 1].kind == 'ident':
                name = toks[j + 1].text
        if kw == 'macro_rules':
            name = toks[j + 2].text if toks[j + 1].text == '!' else None
        it = Item(src, toks, a0, i0, None, kw, name)
        # find end
        k = j + 1
        semi_only = kw in SEMI_ONLY
        end = None
        while k < hi:
            t = toks[k]
            if t.kind == 'punct':
                if t.text == ';':
                    end = k
                    break
                if t.text in OPEN:
                    c = match_close(toks, k)
                    if t.text == '{' and not semi_only:
                        it.body_open, it.body_close = k, c
                        end = c
                        # tuple struct / macro_rules! with trailing ';'
                        break
                    k = c + 1
                    continue
            k += 1
        if end is None:
            raise ParseError(f'unterminated item at byte {toks[i0].start}: {src[toks[i0].start:toks[i0].start+60]!r}')
        it.last = end
        items.append(it)
        i = end + 1
    return items


def parse_file(src):
    toks = tokenize(src)
    return split_items(src, toks, 0, len(toks)), toks


def find_mod(items, name):
    for it in items:
        if it.kw == 'mod' and it.name == name:
            return it
    return None


class FnSig:
    """Pieces of a fn item: text before the return arrow, return type, where clause."""

    def __init__(self, item):
        toks = item.toks
        src = item.src
        # locate 'fn'
        j = item.first
        while toks[j].text != 'fn':
            j += 1
        self.name = toks[j + 1].text
        k = j + 2
        if toks[k].text == '<':
            k = skip_generics(toks, k)
        if toks[k].text != '(':
            raise ParseError(f'fn {self.name}: no parameter list')
        pclose = match_close(toks, k)
        self.params_text = src[toks[k].start:toks[pclose].end]
        self.params_toks = toks[k + 1:pclose]
        stop = item.body_open if item.body_open is not None else item.last
        self.prefix = src[item.start:toks[pclose].end]  # `pub fn name<..>(params)`
        k = pclose + 1
        self.ret = None
        self.where = None
        if k < stop and toks[k].text == '->':
            r0 = k + 1
            r1 = r0
            while r1 < stop and not (toks[r1].kind == 'ident' and toks[r1].text == 'where'):
                r1 += 1
            self.ret = src[toks[r0].start:toks[r1 - 1].end]
            k = r1
        if k < stop and toks[k].text == 'where':
            self.where = src[toks[k].start:toks[stop - 1].end]

    def param_names(self):
        """names of the parameters (self excluded)"""
        names = []
        depth = 0
        cur = []
        parts = []
        for t in self.params_toks:
            if t.kind == 'punct' and t.text in OPEN:
                depth += 1
            elif t.kind == 'punct' and t.text in CLOSE:
                depth -= 1
            if t.text == ',' and depth == 0:
                parts.append(cur)
                cur = []
            else:
                cur.append(t)
        if cur:
            parts.append(cur)
        for p in parts:
            txt = [t.text for t in p]
            if 'self' in txt and ':' not in txt:
                continue
            if txt and txt[0] == 'mut':
                txt = txt[1:]
            names.append(txt[0])
        return names
