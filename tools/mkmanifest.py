#!/usr/bin/env python3
"""Writes MANIFEST.json from the property table (tools/props.py) and tools/manifest_text.py."""
import json, os, sys
sys.path.insert(0, os.path.dirname(os.path.abspath(__file__)))
import props as P
import manifest_text as T

checks = []
for pid in sorted(P.PROPS):
    spec = P.PROPS[pid]
    t = T.CHECKS[pid]
    checks.append({
        'property_id': pid,
        'quick_cmd': f'./check {pid} --tier quick',
        'thorough_cmd': f'./check {pid} --tier thorough',
        'evidence_file': f'/verif/evidence/{pid}.json',
        'replay_cmd_template': './check --replay {path}',
        'engine': t['engine'],
        'level_claimed': {'category': spec['level'], 'text': t['level_text'], 'design_ref': t['design_ref']},
        'level_note': t['level_note'],
        'technique': t['technique'],
    })
m = {
    'version': 1,
    'setup_cmd': T.SETUP_CMD,
    'hooks': T.HOOKS,
    'engines': T.ENGINES,
    'checks': checks,
    'notes': T.NOTES,
    'not_applicable': [{'property_id': k, 'reason': v} for k, v in sorted(T.NOT_APPLICABLE.items()) if k not in P.PROPS],
}
json.dump(m, open(os.path.join(os.path.dirname(os.path.dirname(os.path.abspath(__file__))), 'MANIFEST.json'), 'w'), indent=1)
print('MANIFEST.json written:', len(checks), 'checks,', len(m['not_applicable']), 'not applicable')
